//go:build c13worker

package main

import (
	"fmt"
	"sort"
	"strconv"
	"strings"
)

// ---------------------------------------------------------------------------------------------
// Reference model of "structurally equal under the documented rules".
//
// The documented rules are the doc comment of expr.Hash (and of expr.Equal, which is defined
// as Hash with ignoreFields=false, ignoreNames=true, ignoreTags=true):
//
//   - both types have the same kind
//   - array types have elements whose types have the same hash
//   - map types have keys and elements whose types have the same hash
//   - user types have the same name if ignoreNames is false or ignoreFields is true
//   - user types have the same attribute names and the attribute types have the same hash if
//     ignoreFields is false
//   - object attributes have the same "struct:field:xxx" tags if ignoreTags is false
//   - (Equal) objects have the same attribute names and the attribute types are equal
//
// plus, from the property statement, independence of the declaration order of object
// attributes and union alternatives. The comment leaves some things open (is the name of a
// union significant? the names of its alternatives? tags set on the user type itself? objects
// under ignoreFields? is a cycle equal to its own unrolling?). The oracle must not be stricter
// than the statement, so the model has two sides and asserts only what holds under EVERY
// reading of the comment:
//
//	strict canonical form  = the finest reading: everything any reading could tell apart is in
//	                         it. Same strict form  =>  the hashes MUST be equal.
//	loose equality         = the coarsest reading: only what the comment definitely names.
//	                         Not loosely equal     =>  the hashes MUST differ.
//
// Pairs that are loosely equal but strictly different are left alone.
// Result types are user types ("A result type is a user type"): the loose side does not tell
// the two apart, the strict side does.
// ---------------------------------------------------------------------------------------------

type flags struct{ IgnoreFields, IgnoreNames, IgnoreTags bool }

func flagsOf(i int) flags { return flags{i&4 != 0, i&2 != 0, i&1 != 0} }

func (f flags) String() string {
	b := func(x bool) string {
		if x {
			return "1"
		}
		return "0"
	}
	return b(f.IgnoreFields) + b(f.IgnoreNames) + b(f.IgnoreTags)
}

const tagPrefix = "struct:field:"

// tagCanon renders the struct:field:* entries of a meta map in key order.
func tagCanon(m map[string][]string) string {
	var ks []string
	for k := range m {
		if strings.HasPrefix(k, tagPrefix) {
			ks = append(ks, k)
		}
	}
	if len(ks) == 0 {
		return ""
	}
	sort.Strings(ks)
	var sb strings.Builder
	for _, k := range ks {
		sb.WriteString("+" + strconv.Quote(k) + "=[")
		for i, v := range m[k] {
			if i > 0 {
				sb.WriteString(",")
			}
			sb.WriteString(strconv.Quote(v))
		}
		sb.WriteString("]")
	}
	return sb.String()
}

func tagsEqual(a, b map[string][]string) bool { return tagCanon(a) == tagCanon(b) }

type canonOpts struct {
	fl      flags
	sortObj bool // forget the declaration order of object attributes
	sortUni bool // forget the declaration order of union alternatives
}

// strictCanon is the strict canonical form: the type unrolled as a tree along every path until
// a definition already on the path is met again (rendered as the distance to it), members
// sorted by name. Two graphs have the same form iff these unrollings coincide; sharing versus
// duplication of a definition is deliberately not visible, a cycle versus its unrolling is.
func strictCanon(g *Graph, n *Node, fl flags) string {
	return canon(g, n, canonOpts{fl: fl, sortObj: true, sortUni: true}, nil)
}

func canon(g *Graph, n *Node, o canonOpts, path []string) string {
	switch n.K {
	case "p":
		return "p:" + n.N
	case "a":
		return "a(" + canon(g, n.F[0].A.T, o, path) + ")"
	case "m":
		return "m(" + canon(g, n.F[0].A.T, o, path) + "," + canon(g, n.F[1].A.T, o, path) + ")"
	case "o":
		parts := make([]string, len(n.F))
		for i := range n.F {
			s := strconv.Quote(n.F[i].N) + ":" + canon(g, n.F[i].A.T, o, path)
			if !o.fl.IgnoreTags {
				s += tagCanon(n.F[i].A.Meta)
			}
			parts[i] = s
		}
		if o.sortObj {
			sort.Strings(parts)
		}
		return "o{" + strings.Join(parts, ";") + "}"
	case "u":
		parts := make([]string, len(n.F))
		for i := range n.F {
			parts[i] = strconv.Quote(n.F[i].N) + ":" + canon(g, n.F[i].A.T, o, path)
		}
		if o.sortUni {
			sort.Strings(parts)
		}
		return "u(" + strconv.Quote(n.N) + "){" + strings.Join(parts, ";") + "}"
	case "r":
		for i := len(path) - 1; i >= 0; i-- {
			if path[i] == n.N {
				return "^" + strconv.Itoa(len(path)-i)
			}
		}
		d := g.def(n.N)
		s := "tU"
		if d.Result {
			s = "tR"
		}
		if !o.fl.IgnoreNames || o.fl.IgnoreFields {
			s += "(" + strconv.Quote(d.TypeName) + ")"
		}
		if o.fl.IgnoreFields {
			return s
		}
		if !o.fl.IgnoreTags {
			s += tagCanon(d.A.Meta)
		}
		np := append(append([]string(nil), path...), n.N)
		return s + "{" + canon(g, d.A.T, o, np) + "}"
	}
	panic("canon: unknown node kind " + n.K)
}

// looseEqual is the coarsest reading, decided coinductively: a pair of definitions under
// comparison is assumed equal when met again (visited-pair set). It returns a reason and the
// kind of the innermost node at which the comparison failed.
func looseEqual(g1 *Graph, n1 *Node, g2 *Graph, n2 *Node, fl flags) (bool, string) {
	return looseEq(g1, n1, g2, n2, fl, map[[2]string]bool{})
}

func kindClass(k string) string {
	switch k {
	case "p":
		return "primitive"
	case "a":
		return "array"
	case "m":
		return "map"
	case "o":
		return "object"
	case "u":
		return "union"
	case "r":
		return "user-type"
	}
	return k
}

func looseEq(g1 *Graph, n1 *Node, g2 *Graph, n2 *Node, fl flags, assumed map[[2]string]bool) (bool, string) {
	if n1.K != n2.K {
		return false, "kind " + kindClass(n1.K) + "/" + kindClass(n2.K)
	}
	switch n1.K {
	case "p":
		if n1.N != n2.N {
			return false, "primitive"
		}
		return true, ""
	case "a":
		return looseEq(g1, n1.F[0].A.T, g2, n2.F[0].A.T, fl, assumed)
	case "m":
		if ok, why := looseEq(g1, n1.F[0].A.T, g2, n2.F[0].A.T, fl, assumed); !ok {
			return false, why
		}
		return looseEq(g1, n1.F[1].A.T, g2, n2.F[1].A.T, fl, assumed)
	case "o":
		if fl.IgnoreFields {
			// the comment only speaks about user types when ignoreFields is false and about
			// objects through Equal (ignoreFields=false): nothing is demanded here
			return true, ""
		}
		if len(n1.F) != len(n2.F) {
			return false, "object-attribute-names"
		}
		by := map[string]*Field{}
		for i := range n2.F {
			by[n2.F[i].N] = &n2.F[i]
		}
		for i := range n1.F {
			f2, ok := by[n1.F[i].N]
			if !ok {
				return false, "object-attribute-names"
			}
			if ok, why := looseEq(g1, n1.F[i].A.T, g2, f2.A.T, fl, assumed); !ok {
				return false, why
			}
			if !fl.IgnoreTags && !tagsEqual(n1.F[i].A.Meta, f2.A.Meta) {
				return false, "object-attribute-tags"
			}
		}
		return true, ""
	case "u":
		// the comment is silent about unions beyond "same kind"; the property statement makes
		// their alternatives significant as an unordered collection. Coarsest reading: the
		// alternatives' types match one to one in some order (names not compared).
		if len(n1.F) != len(n2.F) {
			return false, "union-alternatives"
		}
		idx := make([]int, len(n2.F))
		for i := range idx {
			idx[i] = i
		}
		found := false
		permute(idx, func(p []int) bool {
			trial := make(map[[2]string]bool, len(assumed))
			for k := range assumed {
				trial[k] = true
			}
			for i := range n1.F {
				if ok, _ := looseEq(g1, n1.F[i].A.T, g2, n2.F[p[i]].A.T, fl, trial); !ok {
					return true // next permutation
				}
			}
			for k := range trial {
				assumed[k] = true
			}
			found = true
			return false
		})
		if !found {
			return false, "union-alternatives"
		}
		return true, ""
	case "r":
		d1, d2 := g1.def(n1.N), g2.def(n2.N)
		if (!fl.IgnoreNames || fl.IgnoreFields) && d1.TypeName != d2.TypeName {
			return false, "user-type-name"
		}
		if fl.IgnoreFields {
			return true, ""
		}
		key := [2]string{n1.N, n2.N}
		if assumed[key] {
			return true, ""
		}
		assumed[key] = true
		return looseEq(g1, d1.A.T, g2, d2.A.T, fl, assumed)
	}
	panic("looseEq: unknown node kind " + n1.K)
}

// permute calls f with every permutation of p (identity first) until f returns false.
func permute(p []int, f func([]int) bool) {
	var rec func(k int) bool
	rec = func(k int) bool {
		if k == len(p) {
			return f(p)
		}
		for i := k; i < len(p); i++ {
			p[k], p[i] = p[i], p[k]
			if !rec(k + 1) {
				p[k], p[i] = p[i], p[k]
				return false
			}
			p[k], p[i] = p[i], p[k]
		}
		return true
	}
	rec(0)
}

// differClass says in which respect two strictly equal types differ (for signatures):
// declaration order of object attributes / union alternatives, or nothing the strict form
// sees (decorations, identity of nodes, sharing versus duplication).
func differClass(g1, g2 *Graph, fl flags) string {
	if g1.String() == g2.String() {
		return "nothing(same-description)"
	}
	// Does the difference in hash survive declaring all members in sorted order? Then it is
	// not a matter of declaration order. (The real Hash is used here only to NAME the class.)
	s1, s2 := sortMembers(g1), sortMembers(g2)
	if hashes(s1)[flagIndex(fl)] != hashes(s2)[flagIndex(fl)] {
		if shape(g1) == shape(g2) {
			return "decoration-only"
		}
		return "sharing-or-unrolling"
	}
	c := func(g *Graph, so, su bool) string {
		return canon(g, g.Root.T, canonOpts{fl: fl, sortObj: so, sortUni: su}, nil)
	}
	objOnly := c(g1, true, false) == c(g2, true, false)
	uniOnly := c(g1, false, true) == c(g2, false, true)
	switch {
	case objOnly && !uniOnly:
		return "object-attribute-order"
	case uniOnly && !objOnly:
		return "union-alternative-order"
	}
	return "object-and-union-order"
}

func flagIndex(f flags) int {
	i := 0
	if f.IgnoreFields {
		i |= 4
	}
	if f.IgnoreNames {
		i |= 2
	}
	if f.IgnoreTags {
		i |= 1
	}
	return i
}

// sortMembers returns the graph with the members of every object and union declared in
// name order.
func sortMembers(g *Graph) *Graph {
	c := g.clone()
	c.nodes(func(n *Node) {
		if n.K == "o" || n.K == "u" {
			sort.SliceStable(n.F, func(i, j int) bool { return n.F[i].N < n.F[j].N })
		}
	})
	return c
}

// shape is the description with every decoration removed (definitions and keys kept).
func shape(g *Graph) string {
	c := g.clone()
	c.Root.Deco, c.Root.Meta = 0, nil
	c.attrs(func(a *Attr, _ string) { a.Deco, a.Meta = 0, nil })
	return c.String()
}

// maxMembers returns the largest number of union alternatives and of object attributes.
func (g *Graph) maxMembers() (obj, uni int) {
	g.nodes(func(n *Node) {
		if n.K == "o" && len(n.F) > obj {
			obj = len(n.F)
		}
		if n.K == "u" && len(n.F) > uni {
			uni = len(n.F)
		}
	})
	return
}

func (g *Graph) features() string {
	cyc, ung := g.cyclic()
	switch {
	case ung:
		return "cyclic-unguarded"
	case cyc:
		return "cyclic"
	}
	return "acyclic"
}

func fmtFlagSet(set []int) string {
	if len(set) == 8 {
		return "all"
	}
	var s []string
	for _, i := range set {
		s = append(s, flagsOf(i).String())
	}
	return strings.Join(s, ",")
}

var _ = fmt.Sprint

//go:build c13worker

package main

import (
	"fmt"
	"strings"
)

// ---------------------------------------------------------------------------------------------
// Enumeration. A family is an indexable list of base graphs; every base graph is expanded into
// variants (variant 0 is the base itself): all permutations of the members of one object /
// union node at a time (plus "every node reversed"), one attribute at a time carrying each of
// a fixed list of meta sets, one attribute at a time carrying every decoration, pairs of
// tagged attributes. An instance is addressed by (family, base, variant) so that any instance
// can be regenerated without keeping graphs in memory.
// ---------------------------------------------------------------------------------------------

type variantOpts struct {
	perms    bool
	metaSets []map[string][]string // one site at a time
	deco     bool                  // one site at a time, every decoration
	twoSites []map[string][]string // pairs of sites, pairs of these sets
}

type family struct {
	name   string
	n      int
	base   func(i int) *Graph // may return nil (index not used)
	opts   variantOpts
	custom func(g *Graph) []func() *Graph // replaces the generic variants when set
}

type instID struct{ fam, base, variant int }

func (id instID) String() string { return fmt.Sprintf("%d/%d/%d", id.fam, id.base, id.variant) }

// The meta alphabet: 0..3 struct:field:* keys (the ones goa documents), each holding a slice,
// with and without keys that are not struct:field tags.
var metaSets = []map[string][]string{
	{"struct:field:name": {"x"}},
	{"struct:field:name": {"y"}},
	{"struct:field:type": {"x"}},
	{"struct:field:name": {"x", "y"}},
	{"struct:field:name": {"x"}, "struct:field:type": {"y"}},
	{"struct:field:name": {"y"}, "struct:field:type": {"x"}},
	{"struct:field:name": {"x"}, "struct:field:type": {"y", "pkg/path"}, "struct:field:external": {"z"}},
	{"struct:tag:json": {"j"}},
	{"struct:field:name": {"x"}, "struct:tag:json": {"j"}},
	{"struct:field:name": {"x"}, "struct:field:type": {"y"}, "struct:field:external": {"z"}, "openapi:example": {"false"}},
}

var metaSetsSmall = []map[string][]string{metaSets[0], metaSets[4], metaSets[6]}

func factorial(n int) int {
	r := 1
	for i := 2; i <= n; i++ {
		r *= i
	}
	return r
}

// nthPerm returns the k-th permutation of 0..n-1 in lexicographic order (k=0 identity).
func nthPerm(n, k int) []int {
	items := make([]int, n)
	for i := range items {
		items[i] = i
	}
	out := make([]int, 0, n)
	for i := n; i > 0; i-- {
		f := factorial(i - 1)
		j := k / f
		k %= f
		out = append(out, items[j])
		items = append(items[:j], items[j+1:]...)
	}
	return out
}

func permuteFields(f []Field, p []int) []Field {
	out := make([]Field, len(f))
	for i, j := range p {
		out[i] = f[j]
	}
	return out
}

// multi returns the object/union nodes with at least two members, in g.nodes order.
func multi(g *Graph) []*Node {
	var out []*Node
	g.nodes(func(n *Node) {
		if (n.K == "o" || n.K == "u") && len(n.F) >= 2 {
			out = append(out, n)
		}
	})
	return out
}

// recipes lists the variants of base i as closures (cheap to list, built on demand).
func (f *family) recipes(i int) []func() *Graph {
	g := f.base(i)
	if g == nil {
		return nil
	}
	if f.custom != nil {
		return f.custom(g)
	}
	out := []func() *Graph{func() *Graph { return g }}
	o := f.opts
	if o.perms {
		nodes := multi(g)
		for j, n := range nodes {
			for k := 1; k < factorial(len(n.F)); k++ {
				j, k := j, k
				out = append(out, func() *Graph {
					c := g.clone()
					cn := multi(c)[j]
					cn.F = permuteFields(cn.F, nthPerm(len(cn.F), k))
					return c
				})
			}
		}
		if len(nodes) >= 2 {
			out = append(out, func() *Graph {
				c := g.clone()
				for _, cn := range multi(c) {
					p := make([]int, len(cn.F))
					for x := range p {
						p[x] = len(p) - 1 - x
					}
					cn.F = permuteFields(cn.F, p)
				}
				return c
			})
		}
	}
	nsites := 0
	g.attrs(func(*Attr, string) { nsites++ })
	site := func(c *Graph, j int) *Attr {
		var res *Attr
		k := 0
		c.attrs(func(a *Attr, _ string) {
			if k == j {
				res = a
			}
			k++
		})
		return res
	}
	for j := 0; j < nsites; j++ {
		j := j
		for _, ms := range o.metaSets {
			ms := ms
			out = append(out, func() *Graph {
				c := g.clone()
				site(c, j).Meta = ms
				return c
			})
		}
		if o.deco {
			out = append(out, func() *Graph {
				c := g.clone()
				site(c, j).Deco = DAll
				return c
			})
		}
	}
	if len(o.twoSites) > 0 {
		for j := 0; j < nsites; j++ {
			for k := j + 1; k < nsites; k++ {
				for _, m1 := range o.twoSites {
					for _, m2 := range o.twoSites {
						j, k, m1, m2 := j, k, m1, m2
						out = append(out, func() *Graph {
							c := g.clone()
							site(c, j).Meta = m1
							site(c, k).Meta = m2
							return c
						})
					}
				}
			}
		}
	}
	return out
}

// ---------------------------------------------------------------------------------------------
// Family "closed": the constructor grammar without recursion.
//
//	T(0)   = primitives
//	T(d+1) = C[x] for every one-hole context C and every x in T(d)   (plus the empty object at d=1)
//
// Contexts put the hole under every constructor, at every member position of objects and
// unions of 1..3 (thorough: 4) members whose other members are primitives, under two
// different user type names and under a result type. Each user/result type wrapper is its own
// definition (key d<depth>), so the same TypeName can denote different definitions in one
// graph (they then get distinct UIDs, as goa's generators do).
// ---------------------------------------------------------------------------------------------

type holeCtx struct {
	name  string
	apply func(x *Graph, level int) *Graph
}

func wrap(x *Graph, f func(t *Node) *Node) *Graph {
	return &Graph{Defs: x.Defs, Root: Attr{T: f(x.Root.T)}}
}

func wrapDef(x *Graph, level int, name string, result bool, body func(t *Node) *Node) *Graph {
	key := fmt.Sprintf("d%d", level)
	defs := append(append([]Def(nil), x.Defs...), Def{Key: key, TypeName: name, Result: result, A: Attr{T: body(x.Root.T)}})
	return &Graph{Defs: defs, Root: Attr{T: ref(key)}}
}

func contexts(thorough bool) []holeCtx {
	I, S := prim("int"), prim("string")
	cs := []holeCtx{
		{"array", func(x *Graph, _ int) *Graph { return wrap(x, func(t *Node) *Node { return arr(t) }) }},
		{"map-elem", func(x *Graph, _ int) *Graph { return wrap(x, func(t *Node) *Node { return mp(S, t) }) }},
		{"obj{a}", func(x *Graph, _ int) *Graph { return wrap(x, func(t *Node) *Node { return obj(fld("a", t)) }) }},
		{"obj{b}", func(x *Graph, _ int) *Graph { return wrap(x, func(t *Node) *Node { return obj(fld("b", t)) }) }},
		{"obj{a*,b}", func(x *Graph, _ int) *Graph {
			return wrap(x, func(t *Node) *Node { return obj(fld("a", t), fld("b", I)) })
		}},
		{"obj{a,b*}", func(x *Graph, _ int) *Graph {
			return wrap(x, func(t *Node) *Node { return obj(fld("a", I), fld("b", t)) })
		}},
		{"obj{a*,b,c}", func(x *Graph, _ int) *Graph {
			return wrap(x, func(t *Node) *Node { return obj(fld("a", t), fld("b", I), fld("c", S)) })
		}},
		{"union{p}", func(x *Graph, _ int) *Graph { return wrap(x, func(t *Node) *Node { return uni("U", fld("p", t)) }) }},
		{"union{p*,q,r}", func(x *Graph, _ int) *Graph {
			return wrap(x, func(t *Node) *Node { return uni("U", fld("p", t), fld("q", I), fld("r", S)) })
		}},
		{"type A", func(x *Graph, l int) *Graph { return wrapDef(x, l, "A", false, func(t *Node) *Node { return t }) }},
		{"type B", func(x *Graph, l int) *Graph { return wrapDef(x, l, "B", false, func(t *Node) *Node { return t }) }},
		{"result R", func(x *Graph, l int) *Graph {
			return wrapDef(x, l, "R", true, func(t *Node) *Node { return obj(fld("a", t)) })
		}},
	}
	if thorough {
		cs = append(cs,
			holeCtx{"map-key", func(x *Graph, _ int) *Graph { return wrap(x, func(t *Node) *Node { return mp(t, I) }) }},
			holeCtx{"obj{a,b,c*,d}", func(x *Graph, _ int) *Graph {
				return wrap(x, func(t *Node) *Node { return obj(fld("a", I), fld("b", S), fld("c", t), fld("d", I)) })
			}},
			holeCtx{"union V{p}", func(x *Graph, _ int) *Graph { return wrap(x, func(t *Node) *Node { return uni("V", fld("p", t)) }) }},
			holeCtx{"union{p,q*,r,s}", func(x *Graph, _ int) *Graph {
				return wrap(x, func(t *Node) *Node { return uni("U", fld("p", I), fld("q", t), fld("r", S), fld("s", I)) })
			}},
		)
	}
	return cs
}

// closedLevels returns the exact-depth lists E0..E(depth-1) eagerly and a generator for E(depth).
type closedSpace struct {
	ctxs   []holeCtx
	levels [][]*Graph // eager levels 0..depth-1
	depth  int
	sizes  []int // size of each level 0..depth
}

func newClosedSpace(prims []string, ctxs []holeCtx, depth int) *closedSpace {
	cs := &closedSpace{ctxs: ctxs, depth: depth}
	var e0 []*Graph
	for _, p := range prims {
		e0 = append(e0, &Graph{Root: Attr{T: prim(p)}})
	}
	cs.levels = append(cs.levels, e0)
	cs.sizes = append(cs.sizes, len(e0))
	for d := 1; d <= depth; d++ {
		prev := cs.levels[d-1]
		n := len(ctxs) * len(prev)
		if d == 1 {
			n++
		}
		cs.sizes = append(cs.sizes, n)
		if d == depth {
			break
		}
		lvl := make([]*Graph, 0, n)
		for i := 0; i < n; i++ {
			lvl = append(lvl, cs.at(d, i))
		}
		cs.levels = append(cs.levels, lvl)
	}
	return cs
}

func (cs *closedSpace) at(d, i int) *Graph {
	if d < len(cs.levels) {
		return cs.levels[d][i]
	}
	prev := cs.levels[d-1]
	if d == 1 && i == len(cs.ctxs)*len(prev) {
		return &Graph{Root: Attr{T: obj()}}
	}
	return cs.ctxs[i/len(prev)].apply(prev[i%len(prev)], d)
}

// family over levels lo..hi (inclusive) of the space.
func (cs *closedSpace) family(name string, lo, hi int, opts variantOpts) *family {
	total := 0
	for d := lo; d <= hi; d++ {
		total += cs.sizes[d]
	}
	return &family{name: name, n: total, opts: opts, base: func(i int) *Graph {
		for d := lo; d <= hi; d++ {
			if i < cs.sizes[d] {
				return cs.at(d, i)
			}
			i -= cs.sizes[d]
		}
		return nil
	}}
}

// ---------------------------------------------------------------------------------------------
// Family "wide": one object or one union with k = 2..kmax members whose types all vary over a
// small set W, in ALL k! declaration orders (variant = permutation number).
// ---------------------------------------------------------------------------------------------

func wideFamily(kmax int, thorough bool) *family {
	W := []func() *Node{
		func() *Node { return prim("int") },
		func() *Node { return prim("string") },
		func() *Node { return arr(prim("int")) },
		func() *Node { return obj(fld("a", prim("int"))) },
		func() *Node { return ref("w") },
	}
	if thorough {
		W = append(W,
			func() *Node { return mp(prim("string"), prim("int")) },
			func() *Node { return uni("U", fld("p", prim("int")), fld("q", prim("string"))) },
		)
	}
	names := [][]string{{"a", "b", "c", "d"}, {"p", "q", "r", "s"}}
	type shape struct{ kind, k, off int }
	var shapes []shape
	total := 0
	pow := func(b, e int) int {
		r := 1
		for i := 0; i < e; i++ {
			r *= b
		}
		return r
	}
	for kind := 0; kind < 2; kind++ {
		for k := 2; k <= kmax; k++ {
			shapes = append(shapes, shape{kind, k, total})
			total += pow(len(W), k)
		}
	}
	mk := func(i int) (*Graph, int) {
		var sh shape
		for _, s := range shapes {
			if i >= s.off {
				sh = s
			}
		}
		x := i - sh.off
		var fs []Field
		usesRef := false
		for m := 0; m < sh.k; m++ {
			w := x % len(W)
			x /= len(W)
			if w == 4 {
				usesRef = true
			}
			fs = append(fs, fld(names[sh.kind][m], W[w]()))
		}
		g := &Graph{}
		if usesRef {
			g.Defs = []Def{{Key: "w", TypeName: "A", A: Attr{T: obj(fld("a", prim("int")))}}}
		}
		if sh.kind == 0 {
			g.Root.T = obj(fs...)
		} else {
			g.Root.T = uni("U", fs...)
		}
		return g, sh.k
	}
	f := &family{name: "wide", n: total, custom: wideVariants}
	f.base = func(i int) *Graph { g, _ := mk(i); return g }
	return f
}

// wide variants: all permutations of the root's members.
func wideVariants(g *Graph) []func() *Graph {
	k := len(g.Root.T.F)
	out := make([]func() *Graph, 0, factorial(k))
	for p := 0; p < factorial(k); p++ {
		p := p
		out = append(out, func() *Graph {
			c := g.clone()
			c.Root.T.F = permuteFields(c.Root.T.F, nthPerm(k, p))
			return c
		})
	}
	return out
}

// ---------------------------------------------------------------------------------------------
// Family "rec": graphs of 2 (thorough also 3) definitions whose bodies come from a small body
// grammar over the leaves {int, every definition}: every way for definitions to refer to
// themselves and to each other, through objects (guarded) and directly through arrays, maps,
// unions and aliases (unguarded), with distinct names (A,B) and with equal names (A,A: a type
// and a same-named second definition, which is what unrolled copies look like), as user types
// and as result types, seen from several roots.
// ---------------------------------------------------------------------------------------------

func recBodies(leaves []func() *Node, reduced bool) []func() *Node {
	var out []func() *Node
	S := func() *Node { return prim("string") }
	for _, l := range leaves {
		l := l
		out = append(out, func() *Node { return obj(fld("f", l())) })
	}
	for _, l := range leaves {
		for _, l2 := range leaves {
			l, l2 := l, l2
			out = append(out, func() *Node { return obj(fld("f", l()), fld("g", l2())) })
		}
	}
	for _, l := range leaves {
		l := l
		out = append(out, func() *Node { return obj(fld("f", arr(l()))) })
	}
	out = append(out, func() *Node { return obj() })
	for _, l := range leaves {
		l := l
		out = append(out, func() *Node { return l() }) // alias
	}
	if reduced {
		return out
	}
	for _, l := range leaves {
		l := l
		out = append(out, func() *Node { return obj(fld("f", mp(S(), l()))) })
	}
	for _, l := range leaves {
		for _, l2 := range leaves {
			l, l2 := l, l2
			out = append(out, func() *Node { return obj(fld("f", uni("U", fld("p", l()), fld("q", l2())))) })
		}
	}
	for _, l := range leaves {
		l := l
		out = append(out, func() *Node { return arr(l()) })
		out = append(out, func() *Node { return mp(S(), l()) })
		out = append(out, func() *Node { return uni("U", fld("p", l()), fld("q", prim("int"))) })
	}
	return out
}

// nearNames are two distinct type names that differ only by letter case (and, for result
// types, identifiers that differ only by the media type suffix, see build): everything that
// keys definitions by a normalised name merges them.
var nearNames = [2]string{"Ab", "aB"}

func recFamily(ndefs int, reduced bool, opts variantOpts) *family {
	keys := []string{"d1", "d2", "d3"}[:ndefs]
	leaves := []func() *Node{func() *Node { return prim("int") }}
	for _, k := range keys {
		k := k
		leaves = append(leaves, func() *Node { return ref(k) })
	}
	bodies := recBodies(leaves, reduced)
	nameSets := [][]string{{"A", "B", "C"}, {"A", "A", "C"}, {nearNames[0], nearNames[1], "C"}}
	if ndefs == 3 {
		nameSets = [][]string{{"A", "B", "C"}, {"A", "B", "A"}, {nearNames[0], "B", nearNames[1]}}
	}
	kindSets := [][]bool{{false, false, false}, {true, false, false}, {true, true, true}}
	roots := []func() *Node{
		func() *Node { return ref("d1") },
		func() *Node { return ref("d2") },
		func() *Node { return obj(fld("p", ref("d1")), fld("q", ref("d2"))) },
		func() *Node { return obj(fld("p", ref("d1")), fld("q", ref("d1"))) },
	}
	nb := len(bodies)
	radix := []int{len(nameSets), len(kindSets), len(roots)}
	for i := 0; i < ndefs; i++ {
		radix = append(radix, nb)
	}
	total := 1
	for _, r := range radix {
		total *= r
	}
	f := &family{name: fmt.Sprintf("rec%d", ndefs), n: total, opts: opts}
	f.base = func(i int) *Graph {
		d := make([]int, len(radix))
		for j := len(radix) - 1; j >= 0; j-- {
			d[j] = i % radix[j]
			i /= radix[j]
		}
		g := &Graph{}
		for k := 0; k < ndefs; k++ {
			body := bodies[d[3+k]]()
			result := kindSets[d[1]][k]
			if result && body.K != "o" {
				return nil // result types are objects
			}
			g.Defs = append(g.Defs, Def{Key: keys[k], TypeName: nameSets[d[0]][k], Result: result, A: Attr{T: body}})
		}
		g.Root.T = roots[d[2]]()
		// Definitions the root cannot reach do not belong to the type: keep only the
		// representative in which each of them has the first body (avoids pure duplicates).
		reach := reachable(g)
		for k := 0; k < ndefs; k++ {
			if !reach[keys[k]] && (d[3+k] != 0 || g.Defs[k].Result) {
				return nil
			}
		}
		if ndefs == 2 && d[0] >= 1 && !(reach["d1"] && reach["d2"]) {
			return nil // equal names only matter when both definitions are part of the type
		}
		return g
	}
	return f
}

func reachable(g *Graph) map[string]bool {
	seen := map[string]bool{}
	var walk func(n *Node)
	walk = func(n *Node) {
		if n.K == "r" {
			if seen[n.N] {
				return
			}
			seen[n.N] = true
			walk(g.def(n.N).A.T)
			return
		}
		for i := range n.F {
			walk(n.F[i].A.T)
		}
	}
	walk(g.Root.T)
	return seen
}

func describeFamilies(fs []*family) string {
	var s []string
	for _, f := range fs {
		s = append(s, fmt.Sprintf("%s:%d", f.name, f.n))
	}
	return strings.Join(s, " ")
}

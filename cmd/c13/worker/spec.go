//go:build c13worker

package main

import (
	"encoding/json"
	"fmt"
	"sort"
	"strings"

	"goa.design/goa/v3/expr"
)

// ---------------------------------------------------------------------------------------------
// Type-graph specification: the harness' own, plain description of a type graph. Everything the
// reference model knows it knows from a spec; goa structures are only ever built FROM a spec
// (build) or read back INTO a spec through public fields (reify).
// ---------------------------------------------------------------------------------------------

// Node is a type expression.
//
//	k=p  primitive N
//	k=a  array, F[0] element
//	k=m  map, F[0] key, F[1] element
//	k=o  object, F members in declaration order
//	k=u  union named N, F alternatives in declaration order
//	k=r  reference to the user/result type definition with key N
type Node struct {
	K string  `json:"k"`
	N string  `json:"n,omitempty"`
	F []Field `json:"f,omitempty"`
}

// Field is a named member (object attribute, union alternative) or an anonymous slot.
type Field struct {
	N string `json:"n,omitempty"`
	A Attr   `json:"a"`
}

// Attr is an attribute: a type plus decorations.
type Attr struct {
	T    *Node               `json:"t"`
	Meta map[string][]string `json:"meta,omitempty"`
	Deco int                 `json:"deco,omitempty"`
}

// Decoration bits (everything an AttributeExpr can carry besides its type and meta).
const (
	DDesc      = 1 << iota // Description
	DRequired              // Validation.Required
	DValues                // Validation.Values (enum slice)
	DBounds                // Validation.Minimum/Maximum/MinLength/MaxLength pointers, Pattern, Format
	DDefSlice              // DefaultValue = []any
	DDefMap                // DefaultValue = map[string]any
	DExamples              // UserExamples
	DBases                 // Bases -> shared base user type
	DRefs                  // References -> shared reference user type
	DDocs                  // Docs
	DMetaPlain             // two non-tag meta keys
	DAll       = DDesc | DRequired | DValues | DBounds | DDefSlice | DExamples | DBases | DRefs | DDocs | DMetaPlain
)

var decoNames = []struct {
	bit  int
	name string
}{{DDesc, "description"}, {DRequired, "required"}, {DValues, "values"}, {DBounds, "bounds"}, {DDefSlice, "default-slice"},
	{DDefMap, "default-map"}, {DExamples, "examples"}, {DBases, "bases"}, {DRefs, "references"}, {DDocs, "docs"}, {DMetaPlain, "meta"}}

// View of a result type: a named subset of the attributes of its object.
type View struct {
	Name   string   `json:"name"`
	Fields []string `json:"fields"`
}

// Def is a user type (or result type) definition.
type Def struct {
	Key      string `json:"key"`  // unique inside the graph
	TypeName string `json:"name"` // several defs may share a TypeName (then they get distinct UIDs)
	Result   bool   `json:"result,omitempty"`
	Views    []View `json:"views,omitempty"` // result types: nil = one default view listing every attribute
	A        Attr   `json:"a"`
}

// Graph is a set of definitions and a root attribute.
type Graph struct {
	Defs []Def `json:"defs,omitempty"`
	Root Attr  `json:"root"`
}

func prim(n string) *Node               { return &Node{K: "p", N: n} }
func ref(key string) *Node              { return &Node{K: "r", N: key} }
func arr(e *Node) *Node                 { return &Node{K: "a", F: []Field{{A: Attr{T: e}}}} }
func mp(k, e *Node) *Node               { return &Node{K: "m", F: []Field{{A: Attr{T: k}}, {A: Attr{T: e}}}} }
func obj(f ...Field) *Node              { return &Node{K: "o", F: f} }
func uni(name string, f ...Field) *Node { return &Node{K: "u", N: name, F: f} }
func fld(name string, t *Node) Field    { return Field{N: name, A: Attr{T: t}} }
func (g *Graph) def(key string) *Def {
	for i := range g.Defs {
		if g.Defs[i].Key == key {
			return &g.Defs[i]
		}
	}
	return nil
}

func (g *Graph) String() string {
	b, _ := json.Marshal(g)
	return string(b)
}

func (g *Graph) clone() *Graph {
	var c Graph
	b, _ := json.Marshal(g)
	if err := json.Unmarshal(b, &c); err != nil {
		panic(err)
	}
	return &c
}

// pretty renders a type compactly for messages: {a:int,b:[]A} etc.
func (g *Graph) pretty() string {
	var sb strings.Builder
	for _, d := range g.Defs {
		k := "type"
		if d.Result {
			k = "result"
		}
		fmt.Fprintf(&sb, "%s %s(%s)%s = %s; ", k, d.TypeName, d.Key, metaStr(d.A.Meta), prettyNode(d.A.T))
	}
	sb.WriteString("root = " + prettyNode(g.Root.T))
	return sb.String()
}

func metaStr(m map[string][]string) string {
	if len(m) == 0 {
		return ""
	}
	var ks []string
	for k := range m {
		ks = append(ks, k)
	}
	sort.Strings(ks)
	var sb strings.Builder
	sb.WriteString("<")
	for i, k := range ks {
		if i > 0 {
			sb.WriteString(" ")
		}
		fmt.Fprintf(&sb, "%s=%v", k, m[k])
	}
	sb.WriteString(">")
	return sb.String()
}

func prettyNode(n *Node) string {
	switch n.K {
	case "p":
		return n.N
	case "r":
		return "@" + n.N
	case "a":
		return "[]" + prettyNode(n.F[0].A.T) + metaStr(n.F[0].A.Meta)
	case "m":
		return "map[" + prettyNode(n.F[0].A.T) + metaStr(n.F[0].A.Meta) + "]" + prettyNode(n.F[1].A.T) + metaStr(n.F[1].A.Meta)
	case "o", "u":
		var sb strings.Builder
		if n.K == "u" {
			sb.WriteString("union " + n.N)
		}
		sb.WriteString("{")
		for i, f := range n.F {
			if i > 0 {
				sb.WriteString(",")
			}
			sb.WriteString(f.N + metaStr(f.A.Meta) + ":" + prettyNode(f.A.T))
		}
		sb.WriteString("}")
		return sb.String()
	}
	return "?"
}

// attrs calls f for every attribute of the graph except the root attribute, in a fixed order
// (root type first, then definitions in order). where describes the position class of the
// attribute: "object-attribute", "union-alternative", "array-element", "map-key",
// "map-element", "user-type", "result-type".
func (g *Graph) attrs(f func(a *Attr, where string)) {
	var walk func(n *Node)
	walk = func(n *Node) {
		for i := range n.F {
			w := ""
			switch n.K {
			case "o":
				w = "object-attribute"
			case "u":
				w = "union-alternative"
			case "a":
				w = "array-element"
			case "m":
				w = "map-key"
				if i == 1 {
					w = "map-element"
				}
			}
			f(&n.F[i].A, w)
			walk(n.F[i].A.T)
		}
	}
	walk(g.Root.T)
	for i := range g.Defs {
		w := "user-type"
		if g.Defs[i].Result {
			w = "result-type"
		}
		f(&g.Defs[i].A, w)
		walk(g.Defs[i].A.T)
	}
}

// nodes calls f for every type node (root type first, then definition bodies).
func (g *Graph) nodes(f func(n *Node)) {
	var walk func(n *Node)
	walk = func(n *Node) {
		f(n)
		for i := range n.F {
			walk(n.F[i].A.T)
		}
	}
	walk(g.Root.T)
	for i := range g.Defs {
		walk(g.Defs[i].A.T)
	}
}

// cyclic reports whether some definition reaches itself; unguarded reports whether it does so
// without passing through an object (T = []T, T = map[string]T, T = union{T}, T = U = T).
func (g *Graph) cyclic() (cyc, unguarded bool) {
	type edge struct {
		to      string
		guarded bool
	}
	edges := map[string][]edge{}
	for i := range g.Defs {
		d := &g.Defs[i]
		var walk func(n *Node, guarded bool)
		walk = func(n *Node, guarded bool) {
			if n.K == "r" {
				edges[d.Key] = append(edges[d.Key], edge{n.N, guarded})
				return
			}
			for j := range n.F {
				walk(n.F[j].A.T, guarded || n.K == "o")
			}
		}
		walk(d.A.T, false)
	}
	// reachability with "all edges" and with "unguarded edges only"
	reach := func(onlyUnguarded bool) bool {
		for i := range g.Defs {
			start := g.Defs[i].Key
			seen := map[string]bool{}
			stack := []string{start}
			for len(stack) > 0 {
				k := stack[len(stack)-1]
				stack = stack[:len(stack)-1]
				for _, e := range edges[k] {
					if onlyUnguarded && e.guarded {
						continue
					}
					if e.to == start {
						return true
					}
					if !seen[e.to] {
						seen[e.to] = true
						stack = append(stack, e.to)
					}
				}
			}
		}
		return false
	}
	return reach(false), reach(true)
}

// unguardedThrough names the constructor kinds on unguarded cycles (for signatures).
func (g *Graph) unguardedThrough() string {
	set := map[string]bool{}
	for i := range g.Defs {
		var walk func(n *Node, via string)
		walk = func(n *Node, via string) {
			switch n.K {
			case "r":
				set[via] = true
			case "o":
				return
			case "a":
				walk(n.F[0].A.T, "array")
			case "m":
				walk(n.F[0].A.T, "map")
				walk(n.F[1].A.T, "map")
			case "u":
				for j := range n.F {
					walk(n.F[j].A.T, "union")
				}
			}
		}
		walk(g.Defs[i].A.T, "alias")
	}
	var ks []string
	for k := range set {
		ks = append(ks, k)
	}
	sort.Strings(ks)
	return strings.Join(ks, "+")
}

// ---------------------------------------------------------------------------------------------
// build: spec -> goa expressions
// ---------------------------------------------------------------------------------------------

var primitives = map[string]expr.Primitive{
	"boolean": expr.Boolean, "int": expr.Int, "int32": expr.Int32, "int64": expr.Int64, "uint": expr.UInt,
	"uint32": expr.UInt32, "uint64": expr.UInt64, "float32": expr.Float32, "float64": expr.Float64,
	"string": expr.String, "bytes": expr.Bytes, "any": expr.Any,
}

// built is a goa expression graph made from a spec.
type built struct {
	g     *Graph
	defs  map[string]expr.UserType
	order []expr.UserType // in Defs order
	root  *expr.AttributeExpr
	base  *expr.UserTypeExpr // target of Bases
	refT  *expr.UserTypeExpr // target of References
}

func dslNoop() {}

func build(g *Graph) *built {
	b := &built{g: g, defs: map[string]expr.UserType{}}
	nameCount := map[string]int{}
	for _, d := range g.Defs {
		nameCount[d.TypeName]++
	}
	b.base = &expr.UserTypeExpr{TypeName: "BaseT", AttributeExpr: &expr.AttributeExpr{Type: &expr.Object{{Name: "z", Attribute: &expr.AttributeExpr{Type: expr.Int}}}}}
	b.refT = &expr.UserTypeExpr{TypeName: "RefT", AttributeExpr: &expr.AttributeExpr{Type: &expr.Object{{Name: "y", Attribute: &expr.AttributeExpr{Type: expr.String, Description: "ref y"}}}}}
	for _, d := range g.Defs {
		ut := &expr.UserTypeExpr{TypeName: d.TypeName}
		if nameCount[d.TypeName] > 1 {
			ut.UID = "uid#" + d.Key // "UID is always unique" for same-named generated types
		}
		if d.Result {
			id := "application/vnd.c13." + strings.ToLower(d.Key)
			// "near" names (enum.go nearNames): the identifiers of the two result types
			// differ only by their suffix, as those of two renderings of one media type do.
			switch d.TypeName {
			case nearNames[0]:
				id = "application/vnd.c13.near+json"
			case nearNames[1]:
				id = "application/vnd.c13.near+xml"
			}
			ut.UID = id
			rt := &expr.ResultTypeExpr{UserTypeExpr: ut, Identifier: id, ContentType: "application/json"}
			b.defs[d.Key] = rt
			b.order = append(b.order, rt)
		} else {
			b.defs[d.Key] = ut
			b.order = append(b.order, ut)
		}
	}
	for i := range g.Defs {
		d := &g.Defs[i]
		att := b.attr(&d.A)
		b.defs[d.Key].SetAttribute(att)
		if rt, ok := b.defs[d.Key].(*expr.ResultTypeExpr); ok {
			views := d.Views
			if views == nil && d.A.T.K == "o" {
				var all []string
				for _, f := range d.A.T.F {
					all = append(all, f.N)
				}
				views = []View{{Name: "default", Fields: all}}
			}
			for _, v := range views {
				vo := &expr.Object{}
				for _, fn := range v.Fields {
					for j := range d.A.T.F {
						if d.A.T.F[j].N == fn {
							// a view attribute: same type, own attribute carrying the parent's decorations
							va := b.attr(&Attr{T: d.A.T.F[j].A.T, Deco: d.A.Deco, Meta: d.A.T.F[j].A.Meta})
							*vo = append(*vo, &expr.NamedAttributeExpr{Name: fn, Attribute: va})
						}
					}
				}
				ve := &expr.ViewExpr{Name: v.Name, Parent: rt, AttributeExpr: &expr.AttributeExpr{Type: vo}}
				if d.A.Deco&DDesc != 0 {
					ve.AttributeExpr.Description = "view " + v.Name
				}
				if d.A.Deco&DMetaPlain != 0 {
					ve.AttributeExpr.Meta = expr.MetaExpr{"view:note": {"n1", "n2"}}
				}
				rt.Views = append(rt.Views, ve)
			}
		}
	}
	b.root = b.attr(&g.Root)
	return b
}

func (b *built) typ(n *Node) expr.DataType {
	switch n.K {
	case "p":
		p, ok := primitives[n.N]
		if !ok {
			panic("unknown primitive " + n.N)
		}
		return p
	case "a":
		return &expr.Array{ElemType: b.attr(&n.F[0].A)}
	case "m":
		return &expr.Map{KeyType: b.attr(&n.F[0].A), ElemType: b.attr(&n.F[1].A)}
	case "o":
		o := make(expr.Object, 0, len(n.F))
		for i := range n.F {
			o = append(o, &expr.NamedAttributeExpr{Name: n.F[i].N, Attribute: b.attr(&n.F[i].A)})
		}
		return &o
	case "u":
		u := &expr.Union{TypeName: n.N}
		for i := range n.F {
			u.Values = append(u.Values, &expr.NamedAttributeExpr{Name: n.F[i].N, Attribute: b.attr(&n.F[i].A)})
		}
		return u
	case "r":
		ut, ok := b.defs[n.N]
		if !ok {
			panic("reference to unknown definition " + n.N)
		}
		return ut
	}
	panic("unknown node kind " + n.K)
}

func (b *built) attr(a *Attr) *expr.AttributeExpr {
	att := &expr.AttributeExpr{Type: b.typ(a.T)}
	if len(a.Meta) > 0 {
		att.Meta = expr.MetaExpr{}
		for k, v := range a.Meta {
			att.Meta[k] = append([]string(nil), v...)
		}
	}
	d := a.Deco
	if d&DMetaPlain != 0 {
		if att.Meta == nil {
			att.Meta = expr.MetaExpr{}
		}
		att.Meta["openapi:example"] = []string{"false"}
		att.Meta["swagger:extension:x-c13"] = []string{"p", "q", "r"}
	}
	if d&DDesc != 0 {
		att.Description = "described"
	}
	if d&(DRequired|DValues|DBounds) != 0 {
		att.Validation = &expr.ValidationExpr{}
	}
	if d&DRequired != 0 {
		req := []string{"zz"}
		if a.T.K == "o" && len(a.T.F) > 0 {
			req = nil
			for _, f := range a.T.F {
				req = append(req, f.N)
			}
		}
		att.Validation.Required = req
	}
	if d&DValues != 0 {
		att.Validation.Values = []any{"v1", 2, []any{"nested"}}
	}
	if d&DBounds != 0 {
		mn, mx, xmn, xmx := 1.5, 9.5, 0.5, 10.5
		lo, hi := 1, 7
		att.Validation.Minimum, att.Validation.Maximum = &mn, &mx
		att.Validation.ExclusiveMinimum, att.Validation.ExclusiveMaximum = &xmn, &xmx
		att.Validation.MinLength, att.Validation.MaxLength = &lo, &hi
		att.Validation.Pattern = "^p+$"
		att.Validation.Format = expr.FormatDate
	}
	if d&DDefSlice != 0 {
		att.DefaultValue = []any{"d1", "d2"}
	}
	if d&DDefMap != 0 {
		att.DefaultValue = map[string]any{"k1": "d1", "k2": []any{"d2"}}
	}
	if d&DExamples != 0 {
		att.UserExamples = []*expr.ExampleExpr{
			{Summary: "first", Description: "ex one", Value: map[string]any{"a": 1, "b": "two"}},
			{Summary: "second", Value: []any{"x", "y"}},
		}
	}
	if d&DBases != 0 {
		att.Bases = []expr.DataType{b.base}
	}
	if d&DRefs != 0 {
		att.References = []expr.DataType{b.refT}
	}
	if d&DDocs != 0 {
		att.Docs = &expr.DocsExpr{Description: "docs", URL: "http://example.com/docs"}
	}
	if d != 0 {
		att.DSLFunc = dslNoop
	}
	return att
}

// ---------------------------------------------------------------------------------------------
// reify: goa expressions -> spec, reading public fields only (no Kind(), Name(), Hash()).
// Used to judge copies with the reference model.
// ---------------------------------------------------------------------------------------------

var primName = map[expr.Primitive]string{}

func init() {
	for n, p := range primitives {
		primName[p] = n
	}
}

type reifier struct {
	g    *Graph
	keys map[any]string
	err  error
}

func reify(root *expr.AttributeExpr) (*Graph, error) {
	r := &reifier{g: &Graph{}, keys: map[any]string{}}
	r.g.Root = r.attr(root, 0)
	return r.g, r.err
}

func reifyType(t expr.DataType) (*Graph, error) {
	return reify(&expr.AttributeExpr{Type: t})
}

func (r *reifier) attr(a *expr.AttributeExpr, depth int) Attr {
	if a == nil {
		r.fail("nil attribute")
		return Attr{T: prim("any")}
	}
	out := Attr{T: r.typ(a.Type, depth)}
	if len(a.Meta) > 0 {
		out.Meta = map[string][]string{}
		for k, v := range a.Meta {
			out.Meta[k] = append([]string(nil), v...)
		}
	}
	return out
}

func (r *reifier) fail(msg string) {
	if r.err == nil {
		r.err = fmt.Errorf("reify: %s", msg)
	}
}

func (r *reifier) typ(t expr.DataType, depth int) *Node {
	if depth > 200 {
		r.fail("expression graph has a cycle that does not pass through a user type")
		return prim("any")
	}
	switch x := t.(type) {
	case nil:
		r.fail("nil type")
		return prim("any")
	case expr.Primitive:
		n, ok := primName[x]
		if !ok {
			r.fail("unknown primitive")
			return prim("any")
		}
		return prim(n)
	case *expr.Array:
		return &Node{K: "a", F: []Field{{A: r.attr(x.ElemType, depth+1)}}}
	case *expr.Map:
		return &Node{K: "m", F: []Field{{A: r.attr(x.KeyType, depth+1)}, {A: r.attr(x.ElemType, depth+1)}}}
	case *expr.Object:
		n := &Node{K: "o"}
		for _, nat := range *x {
			n.F = append(n.F, Field{N: nat.Name, A: r.attr(nat.Attribute, depth+1)})
		}
		return n
	case *expr.Union:
		n := &Node{K: "u", N: x.TypeName}
		for _, nat := range x.Values {
			n.F = append(n.F, Field{N: nat.Name, A: r.attr(nat.Attribute, depth+1)})
		}
		return n
	case *expr.UserTypeExpr:
		return r.user(x, x, false, depth)
	case *expr.ResultTypeExpr:
		return r.user(x, x.UserTypeExpr, true, depth)
	}
	r.fail(fmt.Sprintf("unexpected type %T", t))
	return prim("any")
}

func (r *reifier) user(id any, ut *expr.UserTypeExpr, result bool, depth int) *Node {
	if k, ok := r.keys[id]; ok {
		return ref(k)
	}
	k := fmt.Sprintf("r%d", len(r.keys)+1)
	r.keys[id] = k
	idx := len(r.g.Defs)
	r.g.Defs = append(r.g.Defs, Def{Key: k, TypeName: ut.TypeName, Result: result})
	a := r.attr(ut.AttributeExpr, depth+1)
	r.g.Defs[idx].A = a
	return ref(k)
}

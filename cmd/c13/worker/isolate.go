//go:build c13worker

package main

import (
	"bufio"
	"bytes"
	"context"
	"encoding/json"
	"fmt"
	"os"
	"os/exec"
	"path/filepath"
	"runtime/debug"
	"sort"
	"strconv"
	"strings"
	"sync"
	"sync/atomic"
	"time"

	"goa.design/goa/v3/expr"

	"verif/core"
)

// ---------------------------------------------------------------------------------------------
// Termination. A recursion that does not end kills a Go process (stack overflow cannot be
// recovered), so "Hash / Dup / DupAtt terminate on this graph" is decided in child processes:
// the child announces each operation before it starts it ("B n op") and after it returned
// ("E n op"); an operation that was begun and never ended, in a child that died or had to be
// killed, did not terminate. The watchdog is generous (operations take microseconds, the
// limit is a minute) and a failure is only believed after the five re-executions of core.
// ---------------------------------------------------------------------------------------------

// One child death costs a process start, so the flag combinations are grouped by the one flag
// that decides whether Hash descends into user types at all.
var isoOps = []string{"Dup", "DupAtt", "Hash(ignoreFields=true)", "Hash(ignoreFields=false)"}

// isolatedMain is the child: worker --isolated <file> <from> <skipOps> <to>
func isolatedMain(args []string) {
	debug.SetMaxStack(4 << 20) // the deepest legitimate recursion here is a few dozen frames
	if len(args) != 4 {
		fmt.Fprintln(os.Stderr, "usage: --isolated file from skip to")
		os.Exit(3)
	}
	from, _ := strconv.Atoi(args[1])
	skip, _ := strconv.Atoi(args[2])
	to, _ := strconv.Atoi(args[3])
	f, err := os.Open(args[0])
	if err != nil {
		fmt.Fprintln(os.Stderr, err)
		os.Exit(3)
	}
	sc := bufio.NewScanner(f)
	sc.Buffer(make([]byte, 1<<20), 1<<24)
	n := -1
	for sc.Scan() {
		n++
		if n < from {
			continue
		}
		if n >= to {
			break
		}
		var g Graph
		if err := json.Unmarshal(sc.Bytes(), &g); err != nil {
			fmt.Fprintln(os.Stderr, err)
			os.Exit(3)
		}
		bt := build(&g)
		t := bt.root.Type
		for oi, op := range isoOps {
			if n == from && oi < skip {
				continue
			}
			fmt.Fprintf(os.Stdout, "B %d %d\n", n, oi)
			switch {
			case op == "Dup":
				expr.Dup(t)
			case op == "DupAtt":
				expr.DupAtt(bt.root)
				for _, d := range bt.order {
					expr.DupAtt(d.Attribute())
				}
			default:
				igf := strings.HasSuffix(op, "=true)")
				for k := 0; k < 4; k++ {
					expr.Hash(t, igf, k&2 != 0, k&1 != 0)
				}
				if !igf {
					expr.Equal(expr.Dup(t), t)
				}
			}
			fmt.Fprintf(os.Stdout, "E %d %d\n", n, oi)
		}
	}
	os.Exit(0)
}

var isoSeq int64

// checkTermination runs the operations on every graph in child processes and returns one
// finding per graph with an operation that did not terminate. failed (may be nil) receives
// the indices of those graphs.
func checkTermination(gs []*Graph, failed map[int]bool) []finding {
	if len(gs) == 0 {
		return nil
	}
	dir := filepath.Join(core.Root(), ".work", "c13")
	_ = os.MkdirAll(dir, 0o755)
	file := filepath.Join(dir, fmt.Sprintf("iso-%d-%d.jsonl", os.Getpid(), atomic.AddInt64(&isoSeq, 1)))
	var buf bytes.Buffer
	for _, g := range gs {
		b, _ := json.Marshal(g)
		buf.Write(b)
		buf.WriteByte('\n')
	}
	if err := os.WriteFile(file, buf.Bytes(), 0o644); err != nil {
		panic(err)
	}
	defer os.Remove(file)
	self, err := os.Executable()
	if err != nil {
		panic(err)
	}
	type crash struct {
		ops []int
		how string
	}
	crashes := map[int]*crash{}
	var mu sync.Mutex
	var harness []string
	per := 48
	nchunks := (len(gs) + per - 1) / per
	core.Parallel(nchunks, func(ci int) {
		lo, hi := ci*per, (ci+1)*per
		if hi > len(gs) {
			hi = len(gs)
		}
		from, skip := lo, 0
		for from < hi {
			ctx, cancel := context.WithTimeout(context.Background(), 90*time.Second)
			cmd := exec.CommandContext(ctx, self, "--isolated", file, strconv.Itoa(from), strconv.Itoa(skip), strconv.Itoa(hi))
			var stdout, stderr bytes.Buffer
			cmd.Stdout, cmd.Stderr = &stdout, &stderr
			runErr := cmd.Run()
			timedOut := ctx.Err() != nil
			cancel()
			// parse: last begun, last ended; stop reading at hi
			lastB, lastE := [2]int{-1, -1}, [2]int{-1, -1}
			for _, line := range strings.Split(stdout.String(), "\n") {
				var k string
				var n, o int
				if _, err := fmt.Sscanf(line, "%s %d %d", &k, &n, &o); err != nil {
					continue
				}
				if k == "B" {
					lastB = [2]int{n, o}
				} else {
					lastE = [2]int{n, o}
				}
			}
			if runErr == nil {
				return // chunk complete
			}
			if lastB == lastE || lastB[0] < 0 {
				mu.Lock()
				harness = append(harness, fmt.Sprintf("isolated child failed outside an operation: %v: %s", runErr, firstLine(stderr.String())))
				mu.Unlock()
				return
			}
			how := "crash: " + firstLineMatching(stderr.String(), "fatal error", "panic")
			if timedOut {
				how = "killed after 90s"
			}
			mu.Lock()
			c := crashes[lastB[0]]
			if c == nil {
				c = &crash{how: how}
				crashes[lastB[0]] = c
			}
			c.ops = append(c.ops, lastB[1])
			mu.Unlock()
			from, skip = lastB[0], lastB[1]+1
			if skip >= len(isoOps) {
				from, skip = from+1, 0
			}
		}
	})
	if len(harness) > 0 {
		panic(strings.Join(harness, "; "))
	}
	var idx []int
	for i := range crashes {
		idx = append(idx, i)
	}
	sort.Ints(idx)
	var out []finding
	for _, i := range idx {
		c := crashes[i]
		var ops []string
		for _, o := range c.ops {
			ops = append(ops, isoOps[o])
		}
		g := gs[i]
		cyc, ung := g.cyclic()
		cls := "acyclic"
		switch {
		case ung:
			cls = "not-through-an-object"
		case cyc:
			cls = "through-an-object"
		}
		if failed != nil {
			failed[i] = true
		}
		how := c.how
		if strings.Contains(how, "stack overflow") {
			how = "stack-overflow"
		} else if strings.HasPrefix(how, "killed") {
			how = "timeout"
		} else {
			how = "crash"
		}
		out = append(out, finding{
			Sig:  fmt.Sprintf("nonterminating ops=%s cycle=%s how=%s", strings.Join(ops, ","), cls, how),
			What: fmt.Sprintf("%s did not terminate (%s) on %s (cycle through: %s)", strings.Join(ops, ", "), c.how, g.pretty(), g.unguardedThrough()),
			Case: replayCase{Kind: "termination", G1: g}})
	}
	return out
}

func firstLine(s string) string {
	if i := strings.Index(s, "\n"); i >= 0 {
		return s[:i]
	}
	return s
}

func firstLineMatching(s string, subs ...string) string {
	for _, line := range strings.Split(s, "\n") {
		for _, sub := range subs {
			if strings.Contains(line, sub) {
				return line
			}
		}
	}
	return firstLine(s)
}

//go:build c13worker

// C13 inner harness — "Type copies are independent and structural hashes match equality".
// Built and started by the driver in .. with expr/hasher.go's map ranges put under control.
//
// ALPHABET (spec.go, enum.go): type graphs from a constructor grammar — primitives (int,
// string, boolean), ArrayOf, MapOf, Object (0..3 attributes, thorough 4),
// Union (1..3 alternatives, thorough 4; "wide" family up to 4 in every order), user types
// and result types (with views), as one-hole contexts composed to depth 3 (thorough 4, plus
// a narrow depth 5); graphs of 2 (thorough 3) mutually referring definitions from a body
// grammar (guarded by objects, and unguarded: T=[]T, T=map[string]T, T=union{T}, T=U=T), with
// distinct and with equal type names; meta sets of 0..3 struct:field:* keys (plus foreign
// keys) each holding a []string; decorations: description, Required, Values, bound pointers,
// pattern/format, slice/map default values, user examples, Bases, References, Docs, DSLFunc.
// VARIANTS: every permutation of the members of one object/union node at a time plus all
// nodes reversed; "wide": one object/union of 2..4 members over a type set, all k! orders;
// one attribute at a time carrying each meta set / all decorations; pairs of tagged
// attributes. All 8 combinations of Hash's three flags.
//
// BOUND: complete within the families listed in the evidence (`families`, `bounds`).
//
// ORACLE (from the property statement and the doc comments of Hash/Equal only; ref.go):
//
//	copy        Equal(Dup(t),t), Hash equal under all flags, the copy read back through public
//	            fields has the same strict canonical form, copying twice gives identical
//	            copies; for EVERY mutation site reachable from the copy (snapshot.go), one
//	            mutation per fresh copy, an independently written deep snapshot of the
//	            original is unchanged. Entry points Dup(type) and DupAtt(attribute) at the
//	            root and at every definition.
//	hash        over ALL pairs of enumerated types (via two maps, O(n)): same strict form =>
//	            same hash; same hash => loosely equal. See ref.go for the two readings.
//	stability   every iteration order (all permutations, <= 4 keys) of every dynamic visit of
//	            every map range in hasher.go gives the same hash; plus 50 native-order
//	            repetitions as a sampling companion.
//	termination Hash/Dup/DupAtt/Equal return on every graph (child processes, isolate.go).
package main

import (
	"crypto/sha256"
	"encoding/json"
	"fmt"
	"os"
	"runtime/pprof"
	"sort"
	"strings"
	"sync"
	"sync/atomic"
	"time"

	"verif/core"
)

type dig [12]byte

func digest(s string) dig {
	h := sha256.Sum256([]byte(s))
	var d dig
	copy(d[:], h[:12])
	return d
}

type instRec struct {
	h, s     [8]dig
	skip     bool // not hashed (termination failure or unguarded cycle)
	multiKey bool // some attribute carries >= 2 meta keys
	tagKeys  bool // ... of which >= 2 are struct:field keys
}

type harness struct {
	c      *core.Ctx
	fams   []*family
	recs   [][][]instRec // [family][base][variant]
	failed []map[int]bool
	mu     sync.Mutex
	tally  map[string]*sigStat
}

// sigStat keeps, per violation signature, the number of failing cases and the first one in
// enumeration order (so that memory does not grow with the number of failing cases and the
// reported example does not depend on scheduling).
type sigStat struct {
	order [4]int
	first finding
	count int64
}

func less4(a, b [4]int) bool {
	for i := range a {
		if a[i] != b[i] {
			return a[i] < b[i]
		}
	}
	return false
}

// add records a failing case; order is its position in the enumeration.
func (h *harness) add(order [4]int, f finding) {
	h.mu.Lock()
	defer h.mu.Unlock()
	st := h.tally[f.Sig]
	if st == nil {
		h.tally[f.Sig] = &sigStat{order: order, first: f, count: 1}
		return
	}
	st.count++
	if less4(order, st.order) {
		st.order, st.first = order, f
	}
}

func (h *harness) gen(id instID) *Graph { return h.fams[id.fam].recipes(id.base)[id.variant]() }

// report hands the tally to core in enumeration order.
func (h *harness) report() {
	var stats []*sigStat
	for _, st := range h.tally {
		stats = append(stats, st)
	}
	sort.Slice(stats, func(i, j int) bool { return less4(stats[i].order, stats[j].order) })
	for _, st := range stats {
		f := st.first
		h.c.Violation(f.Sig, f.What, f.Case, func() bool {
			for _, again := range execCase(f.Case) {
				if again.Sig == f.Sig {
					return true
				}
			}
			return false
		})
		for i := int64(1); i < st.count; i++ {
			h.c.Violation(f.Sig, "", nil, nil) // counted by core, nothing else happens
		}
	}
}

func nontrivial(g *Graph) bool { return g.Root.T.K != "p" }

func countMeta(g *Graph) (multi, tags bool) {
	g.attrs(func(a *Attr, _ string) {
		if len(a.Meta) >= 2 {
			multi = true
			n := 0
			for k := range a.Meta {
				if strings.HasPrefix(k, tagPrefix) {
					n++
				}
			}
			if n >= 2 {
				tags = true
			}
		}
	})
	return
}

// ---------------------------------------------------------------------------------------------
// Phase 0: termination of every base graph of the recursive families.
// ---------------------------------------------------------------------------------------------

func (h *harness) phaseTermination() {
	c := h.c
	for fi, f := range h.fams {
		h.failed[fi] = map[int]bool{}
		if !strings.HasPrefix(f.name, "rec") {
			continue
		}
		var gs []*Graph
		var idx []int
		for i := 0; i < f.n; i++ {
			if g := f.base(i); g != nil {
				gs = append(gs, g)
				idx = append(idx, i)
			}
		}
		failed := map[int]bool{}
		fs := checkTermination(gs, failed)
		for k := range failed {
			h.failed[fi][idx[k]] = true
		}
		ung := 0
		for _, g := range gs {
			c.State("termination "+g.String(), true)
			if _, u := g.cyclic(); u {
				ung++
			}
		}
		c.Exec(int64(len(gs) * len(isoOps)))
		c.AddNote("termination_graphs", int64(len(gs)))
		c.AddNote("termination_graphs_with_unguarded_cycle", int64(ung))
		for i := 0; i < len(gs)-len(failed); i++ {
			c.Outcome("terminates")
		}
		for range failed {
			c.Outcome("does-not-terminate")
		}
		for k, f := range fs {
			h.add([4]int{0, fi, k, 0}, f)
		}
	}
}

// ---------------------------------------------------------------------------------------------
// Phase A: hash every instance under every flag, compute the strict forms, check the equality
// part of the copy oracle.
// ---------------------------------------------------------------------------------------------

func (h *harness) phaseHash() bool {
	c := h.c
	for fi, f := range h.fams {
		if c.Expired() {
			c.Incomplete(fmt.Sprintf("hash phase stopped before family %s (%d families of %d done)", f.name, fi, len(h.fams)))
			return false
		}
		h.recs[fi] = make([][]instRec, f.n)
		samples := make([]any, f.n) // offered to core in index order after the parallel part
		const chunk = 64
		nchunks := (f.n + chunk - 1) / chunk
		isRec := strings.HasPrefix(f.name, "rec")
		var stopped sync.Once
		expired := false
		core.Parallel(nchunks, func(ci int) {
			if c.Expired() {
				stopped.Do(func() { expired = true })
				return
			}
			var execs int64
			for b := ci * chunk; b < f.n && b < (ci+1)*chunk; b++ {
				rs := f.recipes(b)
				if rs == nil {
					continue
				}
				recs := make([]instRec, len(rs))
				base := rs[0]()
				_, ung := base.cyclic()
				skip := ung || h.failed[fi][b]
				for v, r := range rs {
					g := r()
					c.State("type "+g.String(), nontrivial(g))
					rec := &recs[v]
					rec.multiKey, rec.tagKeys = countMeta(g)
					if skip {
						rec.skip = true
						continue
					}
					hs := hashes(g)
					execs += 8
					for i := 0; i < 8; i++ {
						rec.h[i] = digest(hs[i])
						rec.s[i] = digest(strictCanon(g, g.Root.T, flagsOf(i)))
					}
					if b%61 == 0 && v == 0 {
						samples[b] = map[string]any{"family": f.name, "type": g.pretty(), "hash(false,false,false)": hs[0]}
					}
					entries := []string{"Dup(root)", "DupAtt(root)"}
					if isRec && v == 0 {
						for k := range reachable(g) {
							entries = append(entries, "Dup(def:"+k+")", "DupAtt(def:"+k+")")
						}
						sort.Strings(entries)
					}
					seq := 0
					for _, e := range entries {
						cr := checkCopy(g, e, v == 0)
						execs += cr.execs
						for _, fd := range cr.findings {
							h.add([4]int{1, fi, b, v*64 + seq}, fd)
							seq++
						}
						switch {
						case len(cr.findings) > 0:
							c.Outcome("copy " + e[:strings.Index(e, "(")] + ": not equal to the original")
						case !cr.snapChecked:
							c.Outcome("copy " + e[:strings.Index(e, "(")] + ": equal")
						case cr.snapIdentity:
							c.Outcome("copy " + e[:strings.Index(e, "(")] + ": equal, repeatable, snapshot identical to the original's")
						default:
							c.Outcome("copy " + e[:strings.Index(e, "(")] + ": equal, repeatable, snapshot differs from the original's (a non-structural field was dropped)")
						}
					}
				}
				h.recs[fi][b] = recs
			}
			c.Exec(execs)
		})
		for _, sm := range samples {
			if sm != nil {
				c.Sample(sm)
			}
		}
		if expired {
			c.Incomplete(fmt.Sprintf("hash phase: deadline reached inside family %s", f.name))
			return false
		}
	}
	return true
}

// ---------------------------------------------------------------------------------------------
// Phase B: all pairs, through two maps per flag combination.
// ---------------------------------------------------------------------------------------------

type cand struct{ a, b instID }

func (h *harness) phasePairs() {
	c := h.c
	type strictEntry struct {
		h  dig
		id instID
	}
	type hashRep struct {
		s  dig
		id instID
	}
	cands := make([][]cand, 8)
	var ninst int64
	var distinctH, distinctS [8]int
	outc := make([]map[string]int, 8)
	perFlag := func(fi int) {
		fl := flagsOf(fi)
		byS := map[dig]strictEntry{}
		byH := map[dig][]hashRep{}
		oc := map[string]int{}
		var n int64
		for fa := range h.fams {
			for b, recs := range h.recs[fa] {
				for v := range recs {
					r := &recs[v]
					if r.skip {
						continue
					}
					n++
					id := instID{fa, b, v}
					hd, sd := r.h[fi], r.s[fi]
					if e, ok := byS[sd]; ok {
						if e.h != hd {
							cands[fi] = append(cands[fi], cand{e.id, id})
							oc["pair: strictly equal, hashes differ"]++
						} else {
							oc["pair: strictly equal, hashes equal"]++
						}
					} else {
						byS[sd] = strictEntry{hd, id}
					}
					reps := byH[hd]
					known := false
					for _, rp := range reps {
						if rp.s == sd {
							known = true
							break
						}
					}
					if !known {
						if len(reps) > 0 {
							g1, g2 := h.gen(reps[0].id), h.gen(id)
							if ok, _ := looseEqual(g1, g1.Root.T, g2, g2.Root.T, fl); !ok {
								cands[fi] = append(cands[fi], cand{reps[0].id, id})
								oc["pair: same hash, different under every reading"]++
							} else {
								oc["pair: same hash, equal under the loose reading only"]++
							}
						} else {
							oc["type: first of its hash"]++
						}
						byH[hd] = append(reps, hashRep{sd, id})
					}
				}
			}
		}
		distinctH[fi], distinctS[fi] = len(byH), len(byS)
		outc[fi] = oc
		if fi == 0 {
			ninst = n
		}
	}
	// two batches of four flag combinations: bounds the memory of the maps
	core.Parallel(4, func(i int) { perFlag(i) })
	core.Parallel(4, func(i int) { perFlag(4 + i) })
	for fi := 0; fi < 8; fi++ {
		var ks []string
		for k := range outc[fi] {
			ks = append(ks, k)
		}
		sort.Strings(ks)
		for _, k := range ks {
			for i := 0; i < outc[fi][k]; i++ {
				c.Outcome(k)
			}
		}
	}
	c.Note("hashed_types", ninst)
	c.Note("pairs_decided_per_flag_combination", ninst*(ninst-1)/2)
	c.Note("distinct_hashes_per_flag_combination", distinctH)
	c.Note("distinct_strict_forms_per_flag_combination", distinctS)
	// merge candidates of all flag combinations, decide each pair completely
	seen := map[cand]bool{}
	var all []cand
	for fi := 0; fi < 8; fi++ {
		for _, cd := range cands[fi] {
			if !seen[cd] {
				seen[cd] = true
				all = append(all, cd)
			}
		}
	}
	sort.Slice(all, func(i, j int) bool {
		x, y := all[i], all[j]
		kx := [6]int{x.b.fam, x.b.base, x.b.variant, x.a.fam, x.a.base, x.a.variant}
		ky := [6]int{y.b.fam, y.b.base, y.b.variant, y.a.fam, y.a.base, y.a.variant}
		for k := range kx {
			if kx[k] != ky[k] {
				return kx[k] < ky[k]
			}
		}
		return false
	})
	c.Note("violating_pairs_examined", len(all))
	var undecided int64
	core.Parallel(len(all), func(i int) {
		fs := checkPair(h.gen(all[i].a), h.gen(all[i].b))
		if len(fs) == 0 {
			atomic.AddInt64(&undecided, 1)
		}
		for k, f := range fs {
			h.add([4]int{2, i, k, 0}, f)
		}
	})
	c.Exec(int64(16 * len(all)))
	if undecided > 0 {
		c.HarnessError("%d candidate pairs were not confirmed when re-decided on the full strings", undecided)
	}
}

// ---------------------------------------------------------------------------------------------
// Phase C: stability under every map iteration order.
// ---------------------------------------------------------------------------------------------

func (h *harness) phaseStability(nativeMaxBaseNodes int) {
	c := h.c
	var nTypes, nVisits, nOrders, nNative int64
	for fa, f := range h.fams {
		for b, recs := range h.recs[fa] {
			if c.Expired() {
				c.Incomplete(fmt.Sprintf("stability phase stopped in family %s at base %d", f.name, b))
				return
			}
			for v := range recs {
				r := &recs[v]
				if r.skip || !r.multiKey {
					continue
				}
				g := h.gen(instID{fa, b, v})
				sr := checkStability(g)
				c.Exec(sr.execs)
				nTypes++
				nVisits += int64(sr.visits)
				nOrders += int64(sr.orders)
				for k, fd := range sr.findings {
					h.add([4]int{3, fa, b, v*64 + k}, fd)
				}
				if len(sr.findings) > 0 {
					c.Outcome("stability: hash depends on map order")
				} else {
					c.Outcome("stability: same hash under every order")
				}
				nn := 0
				g.nodes(func(*Node) { nn++ })
				if r.tagKeys && nn <= nativeMaxBaseNodes {
					fs, ex := checkNative(g)
					c.Exec(ex)
					nNative++
					for k, fd := range fs {
						h.add([4]int{3, fa, b, v*64 + 32 + k}, fd)
					}
					if len(fs) > 0 {
						c.Outcome("native order x50: several answers")
					} else {
						c.Outcome("native order x50: one answer")
					}
				}
			}
		}
	}
	c.Note("stability_types_with_2plus_meta_keys", nTypes)
	c.Note("stability_map_range_visits_permuted", nVisits)
	c.Note("stability_orders_executed", nOrders)
	c.Note("native_order_types_hashed_50x", nNative)
}

// ---------------------------------------------------------------------------------------------
// Phase D: independence of copies.
// ---------------------------------------------------------------------------------------------

type dupCase struct {
	g     *Graph
	entry string
}

func decorate(g *Graph, deco int, tags bool) *Graph {
	c := g.clone()
	set := func(a *Attr) {
		a.Deco = deco
		if tags {
			a.Meta = map[string][]string{"struct:field:name": {"x"}, "struct:field:type": {"y", "pkg/path"}}
		}
	}
	set(&c.Root)
	c.attrs(func(a *Attr, _ string) { set(a) })
	return c
}

func decoName(d int) string {
	if d == 0 {
		return "none"
	}
	if d == DAll {
		return "all"
	}
	var s []string
	for _, dn := range decoNames {
		if d&dn.bit != 0 {
			s = append(s, dn.name)
		}
	}
	return strings.Join(s, "+")
}

// decorateLast decorates only the last attribute of the graph (the innermost of a one-hole
// composition) and the root attribute.
func decorateLast(g *Graph, deco int) *Graph {
	c := g.clone()
	var last *Attr
	c.attrs(func(a *Attr, _ string) { last = a })
	if last != nil {
		last.Deco = deco
		last.Meta = map[string][]string{"struct:field:name": {"x"}, "struct:field:type": {"y", "pkg/path"}}
	}
	c.Root.Deco = deco
	return c
}

// dupCases lists the (type graph, copy entry point) cases of the independence oracle.
//
//	quick     depth<=1 shapes over {int}: every single decoration, all, none, tags, on every
//	          attribute; depth-2 shapes: everything on the innermost attribute and the root;
//	          result types with several views, undecorated and fully decorated; every graph of
//	          two definitions over the reduced body grammar (distinct names; roots d1 and
//	          {p:d1,q:d2}; user types) undecorated, the self- and mutually recursive ones
//	          among them also fully decorated, as user types and as result types.
//	thorough  depth<=2 shapes over {int,string} fully decorated and undecorated, depth 3
//	          innermost-decorated; every graph of two definitions over the full body grammar,
//	          all names/kinds/roots, undecorated; over the reduced body grammar (distinct
//	          names) fully decorated.
func (h *harness) dupCases(thorough bool) []dupCase {
	var out []dupCase
	add := func(g *Graph, defs bool) {
		out = append(out, dupCase{g, "Dup(root)"}, dupCase{g, "DupAtt(root)"})
		if defs {
			var ks []string
			for k := range reachable(g) {
				ks = append(ks, k)
			}
			sort.Strings(ks)
			for _, k := range ks {
				out = append(out, dupCase{g, "DupAtt(def:" + k + ")"})
			}
		}
	}
	singles := []int{0, DAll, DDefMap}
	for _, dn := range decoNames {
		singles = append(singles, dn.bit)
	}
	ctxs := contexts(thorough)
	prims := []string{"int"}
	depth := 2
	if thorough {
		prims = []string{"int", "string"}
		depth = 3
	}
	cs := newClosedSpace(prims, ctxs, depth)
	for d := 0; d <= cs.depth; d++ {
		for i := 0; i < cs.sizes[d]; i++ {
			g := cs.at(d, i)
			switch {
			case d <= 1:
				for _, s := range singles {
					add(decorate(g, s, s == DAll), false)
				}
				add(decorate(g, 0, true), false)
			case d == 2 && thorough:
				add(decorate(g, DAll, true), false)
				add(decorate(g, 0, false), false)
			default:
				add(decorateLast(g, DAll), false)
			}
		}
	}
	// result types with several views
	for _, body := range []*Node{
		obj(fld("a", prim("int")), fld("b", prim("string")), fld("c", ref("v"))),
		obj(fld("a", arr(ref("v"))), fld("b", prim("string"))),
		obj(fld("a", ref("w")), fld("b", prim("int"))),
	} {
		g := &Graph{Defs: []Def{
			{Key: "v", TypeName: "V", Result: true, A: Attr{T: body},
				Views: []View{{Name: "default", Fields: []string{"a", "b"}}, {Name: "tiny", Fields: []string{"a"}}}},
			{Key: "w", TypeName: "W", A: Attr{T: obj(fld("back", ref("v")))}},
		}, Root: Attr{T: ref("v")}}
		for _, s := range []int{0, DAll} {
			add(decorate(g, s, s == DAll), true)
		}
		g2 := g.clone()
		g2.Root.T = obj(fld("r", ref("v")), fld("list", arr(ref("v"))))
		add(decorate(g2, DAll, true), true)
	}
	// recursive graphs
	if thorough {
		// fully decorated: every graph over the reduced body grammar with distinct names
		rd := recFamily(2, true, variantOpts{})
		for i := 0; i < rd.n; i++ {
			if g := rd.base(i); g != nil && g.Defs[0].TypeName != g.Defs[1].TypeName {
				add(decorate(g, DAll, true), true)
			}
		}
	}
	rf := recFamily(2, !thorough, variantOpts{})
	for i := 0; i < rf.n; i++ {
		g := rf.base(i)
		if g == nil {
			continue
		}
		if thorough {
			add(decorate(g, 0, false), true)
			continue
		}
		mixed := len(g.Defs) == 2 && g.Defs[0].Result != g.Defs[1].Result
		root := g.Root.T
		if g.Defs[0].TypeName == g.Defs[1].TypeName || mixed || (root.K == "r" && root.N != "d1") || (root.K == "o" && root.F[1].A.T.N != "d2") {
			continue
		}
		isResult := g.Defs[0].Result
		if !isResult {
			add(g, true)
		}
		// the plain self-recursive and mutually recursive graphs also with every decoration
		// (as user types and as result types)
		b1, b2 := prettyNode(g.Defs[0].A.T), prettyNode(g.Defs[1].A.T)
		if (b1 == "{f:@d1}" && b2 == "{f:int}" && root.K == "r") || (b1 == "{f:@d2}" && b2 == "{f:@d1}") || (b1 == "{f:[]@d2}" && b2 == "{f:@d1,g:@d2}" && !isResult) {
			add(decorate(g, DAll, true), true)
		}
	}
	return out
}

func (h *harness) phaseIndependence(thorough bool) {
	c := h.c
	cases := h.dupCases(thorough)
	c.Note("independence_cases(type x copy entry point)", len(cases))
	samples := make([]any, len(cases))
	var muts, changed int64
	var mu sync.Mutex
	expiredAt := -1
	core.Parallel(len(cases), func(i int) {
		if c.Expired() {
			mu.Lock()
			if expiredAt < 0 || i < expiredAt {
				expiredAt = i
			}
			mu.Unlock()
			return
		}
		dc := cases[i]
		plan := planMutations(dc.g, dc.entry)
		total := len(plan.descs)
		c.State("copy "+dc.entry+" "+dc.g.String(), total > 0)
		var n, ch int64
		for m := 0; m < total; m++ {
			r := runMutation(dc.g, dc.entry, m, plan)
			if r.total != total {
				c.HarnessError("mutation sites of %s %s are not deterministic", dc.entry, dc.g.pretty())
				return
			}
			n++
			switch {
			case r.panicked != "":
				c.Outcome("mutation panicked inside goa: " + r.desc)
			case r.finding != nil:
				ch++
				h.add([4]int{4, i, m, 0}, *r.finding)
				c.Outcome("mutation of the copy changed the original")
			default:
				c.Outcome("mutation of the copy left the original unchanged")
			}
		}
		c.Exec(n)
		if i%97 == 0 {
			samples[i] = map[string]any{"copy": dc.entry, "type": dc.g.pretty(), "mutation_sites": total}
		}
		mu.Lock()
		muts += n
		changed += ch
		mu.Unlock()
	})
	c.Note("independence_mutations_executed", muts)
	c.Note("independence_mutations_that_changed_the_original", changed)
	if expiredAt >= 0 {
		c.Incomplete(fmt.Sprintf("independence phase: deadline reached, cases from about #%d of %d not run", expiredAt, len(cases)))
	}
	for _, sm := range samples {
		if sm != nil {
			c.Sample(sm)
		}
	}
}

func run(c *core.Ctx) {
	thorough := c.Thorough()
	c.Rule("a state is one type graph (canonical JSON description) resp. one (type graph, copy entry point); a transition is one call of expr.Hash / Dup / DupAtt / Equal or one mutation of a fresh copy followed by re-reading the original. " +
		"Families: closed (one-hole constructor contexts composed to the stated depth over the primitives), wide (one object/union with 2..4 members over a type set, every declaration order), rec (2 or 3 mutually referring definitions, every body of the body grammar, equal and distinct names, user and result types, several roots); " +
		"each base graph is expanded with every permutation of one object/union node at a time, each meta set / all decorations on one attribute at a time, pairs of tagged attributes. Non-trivial = the root is not a primitive (hash space) / the copy has at least one mutable cell (copy space).")
	c.Assume("the map-order seam rewrites only the `for k, v := range <map>` loops of expr/hasher.go into loops over the same keys in a controller-chosen order (ascending by default): every order chosen is one the Go runtime may choose, so every hash observed is a behaviour of the unmodified file")
	c.Assume("documented rules = doc comments of expr.Hash and expr.Equal; where they are silent (union name, names of union alternatives, tags on the user type itself, plain objects under ignoreFields, a cycle versus its unrolling, user type versus result type kind) nothing is asserted: same strict form => same hash, same hash => loosely equal (ref.go)")
	c.Assume("expr.Empty is excluded: dup.go documents that it is deliberately not copied")
	c.Assume("distinct definitions with the same TypeName carry distinct UIDs (user_type.go: 'UID is always unique'); definitions with a unique name have no UID, as produced by the DSL")
	c.Assume("hash strings and canonical forms are compared through 96-bit SHA-256 prefixes in the all-pairs maps; every reported pair is re-decided on the full strings")
	if b, err := os.ReadFile(os.Getenv("C13_SITES")); err == nil {
		var sites any
		_ = json.Unmarshal(b, &sites)
		c.Note("map_range_sites_under_control", sites)
	}

	prims := []string{"int", "string", "boolean"}
	depth, tagDepth := 3, 2
	if thorough {
		depth, tagDepth = 4, 3
	}
	ctxs := contexts(thorough)
	cs := newClosedSpace(prims, ctxs, depth)
	h := &harness{c: c, tally: map[string]*sigStat{}}
	recOpts := variantOpts{perms: true}
	if thorough {
		recOpts.metaSets = metaSetsSmall
	}
	h.fams = []*family{
		cs.family("closed(perm,meta,deco)", 0, 2, variantOpts{perms: true, metaSets: metaSets, deco: true}),
	}
	if tagDepth > 2 {
		h.fams = append(h.fams, cs.family("closed-d3(perm,3 meta sets)", 3, tagDepth, variantOpts{perms: true, metaSets: metaSetsSmall}))
	}
	h.fams = append(h.fams,
		cs.family("closed-deep(perm)", tagDepth+1, depth, variantOpts{perms: true}),
		cs.family("closed-two-tagged-attributes", 1, 1, variantOpts{twoSites: metaSetsSmall}),
		wideFamily(4, thorough),
		recFamily(2, false, recOpts),
	)
	bounds := fmt.Sprintf("closed: %d primitives, %d contexts, depth<=%d complete (all meta sets/decorations to depth 2, 3 meta sets to depth %d); wide: k<=4 all orders; rec: 2 definitions, 40 bodies each", len(prims), len(ctxs), depth, tagDepth)
	if thorough {
		narrow := []holeCtx{ctxs[0], ctxs[1], ctxs[4], ctxs[8], ctxs[9], ctxs[11]}
		ns := newClosedSpace([]string{"int", "string"}, narrow, 5)
		h.fams = append(h.fams,
			ns.family("closed-narrow-depth5(perm)", 5, 5, variantOpts{perms: true}),
			recFamily(3, true, variantOpts{perms: true}),
		)
		bounds += "; narrow: 6 contexts, depth 5 complete; rec: 3 definitions, 29 bodies each"
	}
	c.Note("bounds", bounds)
	c.Note("families", describeFamilies(h.fams))
	c.Note("flag_combinations", 8)
	c.Note("meta_sets", len(metaSets))
	h.recs = make([][][]instRec, len(h.fams))
	h.failed = make([]map[int]bool, len(h.fams))

	timed := func(name string, f func()) {
		t0 := time.Now()
		f()
		c.Note("wall_s "+name, time.Since(t0).Seconds())
	}
	timed("0 termination", h.phaseTermination)
	ok := false
	timed("A hash+copy-equality", func() { ok = h.phaseHash() })
	if ok {
		timed("B all pairs", h.phasePairs)
		timed("C stability", func() { h.phaseStability(6) })
	}
	timed("D independence", func() { h.phaseIndependence(thorough) })
	timed("E report", h.report)
}

func replay(c *core.Ctx, path string) {
	var rc replayCase
	if err := core.ReplayCase(path, &rc); err != nil || rc.G1 == nil {
		c.HarnessError("cannot read replay case %s: %v", path, err)
		return
	}
	fs := execCase(rc)
	c.Exec(1)
	fmt.Printf("replay kind=%s failures=%d\n", rc.Kind, len(fs))
	for _, f := range fs {
		fmt.Printf("  %s\n    %s\n", f.Sig, f.What)
		c.Violation(f.Sig, f.What, f.Case, nil)
	}
}

func main() {
	if len(os.Args) > 1 && os.Args[1] == "--isolated" {
		isolatedMain(os.Args[2:])
		return
	}
	if len(os.Args) > 1 && os.Args[1] == "--bench" {
		bench()
		return
	}
	if p := os.Getenv("C13_CPUPROFILE"); p != "" {
		f, _ := os.Create(p)
		_ = pprof.StartCPUProfile(f)
		inner := run
		run2 := func(c *core.Ctx) { inner(c); pprof.StopCPUProfile(); f.Close() }
		core.Main("C13", run2, replay)
		return
	}
	core.Main("C13", run, replay)
}

// bench prints single-threaded costs (used to size the tiers; not part of the check).
func bench() {
	h := &harness{}
	cases := h.dupCases(len(os.Args) > 2)
	t0 := time.Now()
	var n int
	for i := 0; i < len(cases) && n < 20000; i += 37 {
		plan := planMutations(cases[i].g, cases[i].entry)
		for m := range plan.descs {
			runMutation(cases[i].g, cases[i].entry, m, plan)
			n++
		}
	}
	fmt.Printf("cases=%d mutations=%d  %.1f us/mutation\n", len(cases), n, float64(time.Since(t0).Microseconds())/float64(n))
	tot := 0
	groups := map[string][2]int{}
	for _, dc := range cases {
		n := len(planMutations(dc.g, dc.entry).descs)
		tot += n
		k := fmt.Sprintf("defs=%d rootdeco=%s", len(dc.g.Defs), decoName(dc.g.Root.Deco))
		x := groups[k]
		groups[k] = [2]int{x[0] + 1, x[1] + n}
	}
	fmt.Printf("total mutations: %d\n", tot)
	for k, v := range groups {
		fmt.Println(k, v)
	}
}

//go:build c13worker

package main

import (
	"fmt"
	"reflect"
	"sort"
	"strconv"
	"strings"

	"goa.design/goa/v3/expr"
)

// ---------------------------------------------------------------------------------------------
// snapshot: the harness' own deep serializer (reflection only, nothing from goa). Every value
// reachable from the roots is written out; pointers and maps are numbered in order of first
// visit so that cycles terminate and aliasing inside the snapshot is visible. Unexported
// fields are included (reflection may read them), functions are recorded as nil / non-nil.
// ---------------------------------------------------------------------------------------------

type snapper struct {
	sb  strings.Builder
	ids map[uintptr]int
}

func snapshot(roots ...any) string {
	s := &snapper{ids: map[uintptr]int{}}
	for i, r := range roots {
		fmt.Fprintf(&s.sb, "root%d=", i)
		s.val(reflect.ValueOf(r))
		s.sb.WriteString("\n")
	}
	return s.sb.String()
}

func (s *snapper) val(v reflect.Value) {
	if !v.IsValid() {
		s.sb.WriteString("<nil>")
		return
	}
	switch v.Kind() {
	case reflect.Ptr:
		if v.IsNil() {
			s.sb.WriteString("nil")
			return
		}
		p := v.Pointer()
		if id, ok := s.ids[p]; ok {
			fmt.Fprintf(&s.sb, "&#%d", id)
			return
		}
		id := len(s.ids) + 1
		s.ids[p] = id
		fmt.Fprintf(&s.sb, "&#%d=", id)
		s.val(v.Elem())
	case reflect.Interface:
		if v.IsNil() {
			s.sb.WriteString("inil")
			return
		}
		s.sb.WriteString("i<" + v.Elem().Type().String() + ">")
		s.val(v.Elem())
	case reflect.Struct:
		s.sb.WriteString(v.Type().Name() + "{")
		for i := 0; i < v.NumField(); i++ {
			s.sb.WriteString(v.Type().Field(i).Name + ":")
			s.val(v.Field(i))
			s.sb.WriteString(" ")
		}
		s.sb.WriteString("}")
	case reflect.Slice:
		if v.IsNil() {
			s.sb.WriteString("snil")
			return
		}
		fmt.Fprintf(&s.sb, "[%d:", v.Len())
		for i := 0; i < v.Len(); i++ {
			s.val(v.Index(i))
			s.sb.WriteString(",")
		}
		s.sb.WriteString("]")
	case reflect.Array:
		s.sb.WriteString("[")
		for i := 0; i < v.Len(); i++ {
			s.val(v.Index(i))
			s.sb.WriteString(",")
		}
		s.sb.WriteString("]")
	case reflect.Map:
		if v.IsNil() {
			s.sb.WriteString("mnil")
			return
		}
		p := v.Pointer()
		if id, ok := s.ids[p]; ok {
			fmt.Fprintf(&s.sb, "m#%d", id)
			return
		}
		id := len(s.ids) + 1
		s.ids[p] = id
		fmt.Fprintf(&s.sb, "m#%d{", id)
		keys := v.MapKeys()
		sort.Slice(keys, func(i, j int) bool { return fmt.Sprint(keys[i]) < fmt.Sprint(keys[j]) })
		for _, k := range keys {
			s.val(k)
			s.sb.WriteString("=>")
			s.val(v.MapIndex(k))
			s.sb.WriteString(",")
		}
		s.sb.WriteString("}")
	case reflect.String:
		s.sb.WriteString(strconv.Quote(v.String()))
	case reflect.Bool:
		s.sb.WriteString(strconv.FormatBool(v.Bool()))
	case reflect.Int, reflect.Int8, reflect.Int16, reflect.Int32, reflect.Int64:
		s.sb.WriteString(strconv.FormatInt(v.Int(), 10))
	case reflect.Uint, reflect.Uint8, reflect.Uint16, reflect.Uint32, reflect.Uint64, reflect.Uintptr:
		s.sb.WriteString(strconv.FormatUint(v.Uint(), 10) + "u")
	case reflect.Float32, reflect.Float64:
		s.sb.WriteString(strconv.FormatFloat(v.Float(), 'g', -1, 64))
	case reflect.Func:
		if v.IsNil() {
			s.sb.WriteString("fnil")
		} else {
			s.sb.WriteString("func")
		}
	default:
		s.sb.WriteString("?" + v.Kind().String())
	}
}

// firstDiff points at the first position where two snapshots differ (for messages).
func firstDiff(a, b string) string {
	n := len(a)
	if len(b) < n {
		n = len(b)
	}
	i := 0
	for i < n && a[i] == b[i] {
		i++
	}
	lo := i - 70
	if lo < 0 {
		lo = 0
	}
	cut := func(s string) string {
		hi := i + 50
		if hi > len(s) {
			hi = len(s)
		}
		if lo > len(s) {
			return ""
		}
		return s[lo:hi]
	}
	return fmt.Sprintf("before: ...%s...  after: ...%s...", cut(a), cut(b))
}

// ---------------------------------------------------------------------------------------------
// Mutation alphabet. A walker visits every value reachable from a root through exported
// fields, slice elements, map entries, pointers and interfaces and lists every way to change
// it in place:
//
//	field        string += "~", bool flipped, number + 1, pointer/interface/slice/map/func := nil
//	*scalar      write through the pointer (Minimum, MaxLength, ...)
//	slice        element overwritten (string += "~", any := "MUT", pointer := fresh zero value)
//	map          key deleted, value overwritten, new key added
//	methods      Object.Set (existing / new name), Delete, Rename; AttributeExpr.AddMeta
//	             (existing / new key), Delete, SetDefault; Validation.AddRequired /
//	             RemoveRequired; UserType.Rename, SetAttribute
//
// Each site remembers the chain of memory cells (pointer targets, slice elements, maps) that
// was followed to reach it, with a label "Struct.Field" + "*" (pointer target) / "[]" (slice
// element) / "{}" (map). The chain is only used to NAME the place where copy and original
// share memory when a mutation turns out to be visible in the original.
// ---------------------------------------------------------------------------------------------

type step struct {
	label string
	addr  uintptr
}

type site struct {
	desc  string
	path  []step
	apply func()
}

type walker struct {
	seen  map[uintptr]bool
	sites []site
	limit int // stop after site number limit (-1: all)
	done  bool
}

func withStep(path []step, label string, addr uintptr) []step {
	np := make([]step, len(path)+1)
	copy(np, path)
	np[len(path)] = step{label, addr}
	return np
}

func (w *walker) add(path []step, desc string, apply func()) {
	if w.done {
		return
	}
	w.sites = append(w.sites, site{desc: desc, path: path, apply: apply})
	if w.limit >= 0 && len(w.sites) > w.limit {
		w.done = true
	}
}

// mutationSites lists the sites reachable from root (a pointer or an interface holding one).
func mutationSites(root any, limit int) []site {
	w := &walker{seen: map[uintptr]bool{}, limit: limit}
	holder := reflect.New(reflect.TypeOf(root)).Elem()
	holder.Set(reflect.ValueOf(root))
	w.walk(holder, "root", nil)
	return w.sites
}

func typeLabel(t reflect.Type) string {
	for t.Kind() == reflect.Ptr {
		t = t.Elem()
	}
	if t.Name() != "" {
		return t.Name()
	}
	return t.String()
}

func (w *walker) walk(v reflect.Value, owner string, path []step) {
	if w.done {
		return
	}
	switch v.Kind() {
	case reflect.Ptr:
		if v.IsNil() {
			return
		}
		p := v.Pointer()
		np := withStep(path, owner+"*", p)
		el := v.Elem()
		switch el.Kind() {
		case reflect.Float32, reflect.Float64:
			w.add(np, "write through "+owner, func() { el.SetFloat(el.Float() + 1) })
			return
		case reflect.Int, reflect.Int8, reflect.Int16, reflect.Int32, reflect.Int64:
			w.add(np, "write through "+owner, func() { el.SetInt(el.Int() + 1) })
			return
		case reflect.String:
			w.add(np, "write through "+owner, func() { el.SetString(el.String() + "~") })
			return
		case reflect.Bool:
			w.add(np, "write through "+owner, func() { el.SetBool(!el.Bool()) })
			return
		}
		if w.seen[p] {
			return
		}
		w.seen[p] = true
		w.methods(v, np)
		w.walk(el, typeLabel(el.Type()), np)
	case reflect.Interface:
		if v.IsNil() {
			return
		}
		e := v.Elem()
		switch e.Kind() {
		case reflect.Ptr, reflect.Slice, reflect.Map:
			w.walk(e, owner, path)
		}
	case reflect.Struct:
		t := v.Type()
		for i := 0; i < v.NumField(); i++ {
			sf := t.Field(i)
			if !sf.IsExported() {
				continue
			}
			f := v.Field(i)
			fo := t.Name() + "." + sf.Name
			if f.CanSet() {
				w.fieldSites(f, fo, path)
			}
			w.walk(f, fo, path)
		}
	case reflect.Slice:
		if v.IsNil() || v.Len() == 0 {
			return
		}
		for i := 0; i < v.Len(); i++ {
			el := v.Index(i)
			np := withStep(path, owner+"[]", el.UnsafeAddr())
			idx := i
			switch el.Kind() {
			case reflect.String:
				w.add(np, fmt.Sprintf("overwrite %s[%d]", owner, idx), func() { el.SetString(el.String() + "~") })
			case reflect.Interface:
				if el.Type().NumMethod() == 0 {
					w.add(np, fmt.Sprintf("overwrite %s[%d]", owner, idx), func() { el.Set(reflect.ValueOf("MUT")) })
				} else {
					w.add(np, fmt.Sprintf("overwrite %s[%d]", owner, idx), func() { el.Set(reflect.Zero(el.Type())) })
				}
			case reflect.Ptr:
				w.add(np, fmt.Sprintf("overwrite %s[%d]", owner, idx), func() { el.Set(reflect.New(el.Type().Elem())) })
			}
			w.walk(el, owner+"[]", np)
		}
	case reflect.Map:
		if v.IsNil() {
			return
		}
		p := v.Pointer()
		np := withStep(path, owner+"{}", p)
		if w.seen[p] {
			return
		}
		w.seen[p] = true
		keys := v.MapKeys()
		sort.Slice(keys, func(i, j int) bool { return fmt.Sprint(keys[i]) < fmt.Sprint(keys[j]) })
		for _, k := range keys {
			k := k
			w.add(np, fmt.Sprintf("delete key %v of %s", k, owner), func() { v.SetMapIndex(k, reflect.Value{}) })
			w.add(np, fmt.Sprintf("overwrite value of key %v of %s", k, owner), func() { v.SetMapIndex(k, reflect.Zero(v.Type().Elem())) })
		}
		if v.Type().Key().Kind() == reflect.String {
			w.add(np, "add key to "+owner, func() {
				v.SetMapIndex(reflect.ValueOf("zz:new").Convert(v.Type().Key()), reflect.Zero(v.Type().Elem()))
			})
		}
		for _, k := range keys {
			w.walk(v.MapIndex(k), owner+"{}", np)
		}
	}
}

func (w *walker) fieldSites(f reflect.Value, fo string, path []step) {
	switch f.Kind() {
	case reflect.String:
		w.add(path, "set "+fo, func() { f.SetString(f.String() + "~") })
	case reflect.Bool:
		w.add(path, "set "+fo, func() { f.SetBool(!f.Bool()) })
	case reflect.Int, reflect.Int8, reflect.Int16, reflect.Int32, reflect.Int64:
		w.add(path, "set "+fo, func() { f.SetInt(f.Int() + 1) })
	case reflect.Uint, reflect.Uint8, reflect.Uint16, reflect.Uint32, reflect.Uint64:
		w.add(path, "set "+fo, func() { f.SetUint(f.Uint() + 1) })
	case reflect.Float32, reflect.Float64:
		w.add(path, "set "+fo, func() { f.SetFloat(f.Float() + 1) })
	case reflect.Ptr, reflect.Interface, reflect.Slice, reflect.Map, reflect.Func:
		if !f.IsNil() {
			w.add(path, "reassign "+fo+" (nil)", func() { f.Set(reflect.Zero(f.Type())) })
		}
	}
}

// methods lists the mutations through goa's public methods for the value a pointer points to.
func (w *walker) methods(v reflect.Value, path []step) {
	if !v.CanInterface() {
		return
	}
	switch x := v.Interface().(type) {
	case *expr.Object:
		var names []string
		for _, nat := range *x {
			names = append(names, nat.Name)
		}
		if len(names) > 0 {
			n0 := names[0]
			w.add(path, "Object.Set(existing)", func() { x.Set(n0, &expr.AttributeExpr{Type: expr.Bytes}) })
		}
		w.add(path, "Object.Set(new)", func() { x.Set("zz_new", &expr.AttributeExpr{Type: expr.Bytes}) })
		for _, n := range names {
			n := n
			w.add(path, "Object.Delete", func() { x.Delete(n) })
			w.add(path, "Object.Rename", func() { x.Rename(n, n+"_renamed") })
		}
	case *expr.AttributeExpr:
		var keys []string
		for k := range x.Meta {
			keys = append(keys, k)
		}
		sort.Strings(keys)
		for _, k := range keys {
			k := k
			w.add(path, "AttributeExpr.AddMeta(existing key)", func() { x.AddMeta(k, "zz") })
		}
		w.add(path, "AttributeExpr.AddMeta(new key)", func() { x.AddMeta("zz:new", "v") })
		w.add(path, "AttributeExpr.SetDefault", func() { x.SetDefault("new default") })
		if o, ok := x.Type.(*expr.Object); ok && len(*o) > 0 {
			n0 := (*o)[0].Name
			w.add(path, "AttributeExpr.Delete", func() { x.Delete(n0) })
		}
		if x.Validation != nil {
			w.add(path, "Validation.AddRequired", func() { x.Validation.AddRequired("zz_required") })
			for _, r := range append([]string(nil), x.Validation.Required...) {
				r := r
				w.add(path, "Validation.RemoveRequired", func() { x.Validation.RemoveRequired(r) })
			}
		}
	case *expr.UserTypeExpr:
		if x.AttributeExpr != nil {
			w.add(path, "UserTypeExpr.Rename", func() { x.Rename("Renamed") })
		}
		w.add(path, "UserTypeExpr.SetAttribute", func() { x.SetAttribute(&expr.AttributeExpr{Type: expr.Int}) })
	case *expr.ResultTypeExpr:
		if x.UserTypeExpr != nil && x.AttributeExpr != nil {
			w.add(path, "ResultTypeExpr.Rename", func() { x.Rename("Renamed") })
		}
	}
}

// cells collects the memory cells reachable from the roots (pointer targets, slice element
// addresses, maps). Only used to name the sharing site of a violation found by a mutation.
func cells(roots ...any) map[uintptr]bool {
	set := map[uintptr]bool{}
	var walk func(v reflect.Value)
	walk = func(v reflect.Value) {
		switch v.Kind() {
		case reflect.Ptr:
			if v.IsNil() || set[v.Pointer()] {
				return
			}
			set[v.Pointer()] = true
			walk(v.Elem())
		case reflect.Interface:
			if !v.IsNil() {
				walk(v.Elem())
			}
		case reflect.Struct:
			for i := 0; i < v.NumField(); i++ {
				walk(v.Field(i))
			}
		case reflect.Slice:
			for i := 0; i < v.Len(); i++ {
				el := v.Index(i)
				set[el.UnsafeAddr()] = true
				walk(el)
			}
		case reflect.Map:
			if v.IsNil() || set[v.Pointer()] {
				return
			}
			set[v.Pointer()] = true
			for _, k := range v.MapKeys() {
				walk(v.MapIndex(k))
			}
		}
	}
	for _, r := range roots {
		walk(reflect.ValueOf(r))
	}
	return set
}

// sharingSite returns the label of the first cell on the path that belongs to the original.
func sharingSite(path []step, orig map[uintptr]bool) string {
	for _, s := range path {
		if orig[s.addr] {
			l := s.label
			// one shallow copy, several fields: name the copy, not each field
			for _, b := range []string{"Minimum", "Maximum", "ExclusiveMinimum", "ExclusiveMaximum", "MinLength", "MaxLength"} {
				if l == "ValidationExpr."+b+"*" {
					return "ValidationExpr.(bound pointer)*"
				}
			}
			if strings.HasPrefix(l, "AttributeExpr.DefaultValue") {
				return "AttributeExpr.DefaultValue(slice or map)"
			}
			return l
		}
	}
	return "unlocated"
}

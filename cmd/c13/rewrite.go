package main

import (
	"bytes"
	"fmt"
	"go/ast"
	"go/build/constraint"
	"go/format"
	"go/parser"
	"go/token"
	"go/types"
	"os"
	"path/filepath"
	"runtime"
	"sort"
	"strings"
)

// hookSource is added to package expr through the overlay (never committed to /repo). The
// rewritten range loops of hasher.go obtain their key order from verifC13Keys. With no
// controller installed the order is ascending, i.e. one of the orders the Go runtime may
// choose; every other order the controller picks is another one. The seam therefore never
// makes hasher.go do anything the unmodified file could not do.
const hookSource = `//go:build verif

package expr

import "sort"

// VerifC13KeyOrder, when non-nil, is asked for the iteration order of every map range in
// hasher.go: it receives the static site and the keys in ascending order and returns the
// order to use (a permutation of keys).
var VerifC13KeyOrder func(site string, keys []string) []string

// VerifC13Native makes the seam fall back to the Go runtime's own iteration order.
var VerifC13Native bool

func verifC13Keys[V any](site string, m map[string]V) []string {
	keys := make([]string, 0, len(m))
	for k := range m {
		keys = append(keys, k)
	}
	if VerifC13Native {
		return keys
	}
	sort.Strings(keys)
	if f := VerifC13KeyOrder; f != nil {
		return f(site, keys)
	}
	return keys
}
`

// rangeSite describes one rewritten loop (reported in the evidence).
type rangeSite struct {
	Site string `json:"site"` // file:line function
	Expr string `json:"expr"` // the map expression
}

type nullImporter struct{}

func (nullImporter) Import(path string) (*types.Package, error) {
	p := types.NewPackage(path, filepath.Base(path))
	p.MarkComplete()
	return p, nil
}

// rewriteMapRanges type-checks package expr (files: logical path -> path to read; imports are
// not resolved: every type the loops of hasher.go range over is declared in the package
// itself, and a loop whose operand cannot be typed is an error, not a skip) and rewrites each
// range over a map in the target file.
func rewriteMapRanges(files map[string]string, target string) ([]byte, []rangeSite, error) {
	fset := token.NewFileSet()
	var names []string
	for n := range files {
		names = append(names, n)
	}
	sort.Strings(names)
	var parsed []*ast.File
	var tf *ast.File
	for _, n := range names {
		// the logical name is used for positions, the content comes from files[n]
		src, err := readFile(files[n])
		if err != nil {
			return nil, nil, err
		}
		f, err := parser.ParseFile(fset, n, src, parser.ParseComments|parser.SkipObjectResolution)
		if err != nil {
			if n == target {
				return nil, nil, fmt.Errorf("hasher.go does not parse: %v", err)
			}
			continue // reported by the build of the worker if it matters
		}
		if !buildTagOK(f) {
			continue
		}
		parsed = append(parsed, f)
		if n == target {
			tf = f
		}
	}
	if tf == nil {
		return nil, nil, fmt.Errorf("hasher.go not among the parsed files")
	}
	info := &types.Info{Types: map[ast.Expr]types.TypeAndValue{}}
	conf := types.Config{Importer: nullImporter{}, Error: func(error) {}, DisableUnusedImportCheck: true}
	_, _ = conf.Check("goa.design/goa/v3/expr", fset, parsed, info) // errors from unresolved imports are expected

	var sites []rangeSite
	var rerr error
	fail := func(pos token.Pos, format string, a ...any) {
		if rerr == nil {
			rerr = fmt.Errorf("%s: %s", fset.Position(pos), fmt.Sprintf(format, a...))
		}
	}
	nranges := 0
	for _, decl := range tf.Decls {
		fd, ok := decl.(*ast.FuncDecl)
		if !ok || fd.Body == nil {
			continue
		}
		ast.Inspect(fd.Body, func(n ast.Node) bool {
			rs, ok := n.(*ast.RangeStmt)
			if !ok {
				return true
			}
			nranges++
			tv, ok := info.Types[rs.X]
			if !ok || tv.Type == nil || tv.Type == types.Typ[types.Invalid] {
				fail(rs.Pos(), "type of range operand %s cannot be determined", exprString(fset, rs.X))
				return true
			}
			under := tv.Type.Underlying()
			if p, ok := under.(*types.Pointer); ok {
				under = p.Elem().Underlying()
			}
			mt, ok := under.(*types.Map)
			if !ok {
				switch under.(type) {
				case *types.Slice, *types.Array, *types.Basic, *types.Chan, *types.Signature:
					return true // ordered iteration
				}
				fail(rs.Pos(), "range operand %s has unexpected type %s", exprString(fset, rs.X), tv.Type)
				return true
			}
			if b, ok := mt.Key().Underlying().(*types.Basic); !ok || b.Kind() != types.String {
				fail(rs.Pos(), "map range with non-string key type %s cannot be put under control", mt.Key())
				return true
			}
			if !pureOperand(rs.X) {
				fail(rs.Pos(), "map range operand %s is not a plain selector chain", exprString(fset, rs.X))
				return true
			}
			site := fmt.Sprintf("hasher.go:%d %s", fset.Position(rs.Pos()).Line, fd.Name.Name)
			sites = append(sites, rangeSite{Site: site, Expr: exprString(fset, rs.X)})
			// for K, V := range M { body }  ==>
			// for _, K' := range verifC13Keys(site, M) { [K = K';] V :=|= M[K']; body }
			keyIdent := ast.NewIdent("verifC13k")
			var pre []ast.Stmt
			define := rs.Tok == token.DEFINE
			if id, ok := rs.Key.(*ast.Ident); ok && define && id.Name != "_" {
				keyIdent = ast.NewIdent(id.Name)
			} else if rs.Key != nil {
				if id, ok := rs.Key.(*ast.Ident); !ok || id.Name != "_" {
					pre = append(pre, &ast.AssignStmt{Lhs: []ast.Expr{rs.Key}, Tok: token.ASSIGN, Rhs: []ast.Expr{ast.NewIdent(keyIdent.Name)}})
				}
			}
			if rs.Value != nil {
				if id, ok := rs.Value.(*ast.Ident); !ok || id.Name != "_" {
					tok := token.ASSIGN
					if define {
						tok = token.DEFINE
					}
					pre = append(pre, &ast.AssignStmt{Lhs: []ast.Expr{rs.Value}, Tok: tok,
						Rhs: []ast.Expr{&ast.IndexExpr{X: rs.X, Index: ast.NewIdent(keyIdent.Name)}}})
				}
			}
			call := &ast.CallExpr{Fun: ast.NewIdent("verifC13Keys"), Args: []ast.Expr{
				&ast.BasicLit{Kind: token.STRING, Value: fmt.Sprintf("%q", site)}, rs.X}}
			rs.Key = ast.NewIdent("_")
			rs.Value = keyIdent
			rs.Tok = token.DEFINE
			rs.X = call
			rs.Body.List = append(pre, rs.Body.List...)
			return true
		})
	}
	if rerr != nil {
		return nil, nil, rerr
	}
	if nranges == 0 {
		return nil, nil, fmt.Errorf("hasher.go contains no range statement at all: the file changed shape")
	}
	var buf bytes.Buffer
	// the build constraint of the hook file is `verif`; the rewritten hasher.go is only ever
	// used through the overlay of a build that sets the tag
	if err := format.Node(&buf, fset, tf); err != nil {
		return nil, nil, err
	}
	// the result must parse again
	if _, err := parser.ParseFile(token.NewFileSet(), "hasher.go", buf.Bytes(), 0); err != nil {
		return nil, nil, fmt.Errorf("rewritten hasher.go does not parse: %v", err)
	}
	return buf.Bytes(), sites, nil
}

// pureOperand accepts identifiers and selector chains (evaluating them twice is harmless).
func pureOperand(e ast.Expr) bool {
	switch x := e.(type) {
	case *ast.Ident:
		return true
	case *ast.SelectorExpr:
		return pureOperand(x.X)
	case *ast.ParenExpr:
		return pureOperand(x.X)
	case *ast.StarExpr:
		return pureOperand(x.X)
	}
	return false
}

func exprString(fset *token.FileSet, e ast.Expr) string {
	var b bytes.Buffer
	_ = format.Node(&b, fset, e)
	return b.String()
}

func readFile(p string) ([]byte, error) { return os.ReadFile(p) }

// buildTagOK evaluates a //go:build line for the worker's build (tags verif, c13worker).
func buildTagOK(f *ast.File) bool {
	for _, cg := range f.Comments {
		if cg.Pos() >= f.Package {
			break
		}
		for _, c := range cg.List {
			if !constraint.IsGoBuild(c.Text) {
				continue
			}
			x, err := constraint.Parse(c.Text)
			if err != nil {
				return true
			}
			return x.Eval(func(tag string) bool {
				switch tag {
				case "verif", "c13worker", runtime.GOOS, runtime.GOARCH, "gc", "unix":
					return true
				}
				return strings.HasPrefix(tag, "go1.")
			})
		}
	}
	return true
}

// C14 — OpenAPI schemas accept exactly what the generated server accepts.
package main

import (
	"os"
	"strings"

	"verif/core"
	"verif/e2/check"
	"verif/e2/families"
)

func run(c *core.Ctx) {
	c.Rule("designs: the validation families (every keyword x nesting position x location x requiredness, request and response side), the type x location x requiredness singles and pairs, status/tag selection and the error family; " +
		"request side: every payload value C04 sends (both sides of every boundary, type menus, unset; same exclusions) plus the hand-built malformed encodings (non-numeric, fractional, 32/64-bit overflow, negative for unsigned, wrong JSON type, " +
		"invalid JSON, wrong top-level type, undesigned key, empty body, null for required): the http.Request exactly as the server parsed it is validated with kin-openapi's openapi3filter.ValidateRequest against the operation of openapi3.json " +
		"(matched by verb + path template, route built by hand, security excluded) and the verdict must equal the server's decision (user code invoked <=> accepted), both directions; " +
		"response side: every valid result value (C03's enumeration) and every declared error (C05's constructors) returned by the stub: the recorded response must pass ValidateResponse for its status (undocumented status fails); " +
		"one case = one exchange; non-trivial = constraint-violating payloads, malformed encodings and every response")
	c.Assume("goa documents bodies of equal structure with one shared schema: in the shared corpora an operation whose body schema is also referenced by a differently constrained operation is reported once (schema-shared) and its body values are not compared; " +
		"the body-located cases are additionally run one method per design (iso-val-*, iso-l1*-single) where every operation owns its schemas")
	c.Assume("format keywords: every goa format name is registered in kin-openapi with a validator backed by the constructive tables of e2/spec/formats.go; strings outside the tables are never sent")
	c.Assume("kin-openapi computes numbers in float64: payloads containing an integer beyond 2^53 are not compared")
	c.Assume("a document that only fails to load because exclusiveMinimum/exclusiveMaximum are numbers (C07's finding) is read the draft-6 way (minimum + exclusiveMinimum:true) so that the remaining keywords can still be compared")
	c.Assume("values whose delivery is C02's subject (empty strings outside bodies, '/', '%' or space in path values, path bytes) and nil-vs-empty collections are excluded exactly as in C04")
	c.Assume("authentication is not evaluated (NoopAuthenticationFunc); the wire is in-memory (see C02)")
	only := os.Getenv("VERIF_FAMILY")
	for _, f := range c14Families(c.Thorough()) {
		if only != "" && !strings.HasPrefix(f.Name, only) {
			c.Incomplete("restricted to family " + only + " by VERIF_FAMILY (development aid)")
			continue
		}
		if c.Expired() {
			c.Incomplete("deadline reached before family " + f.Name)
			return
		}
		corpus, err := check.BuildFamily(c, f)
		if err != nil {
			c.HarnessError("%s: %v", f.Name, err)
			continue
		}
		if err := check.RunMode(c, corpus, "C14"); err != nil {
			c.HarnessError("%s: %v", f.Name, err)
		}
	}
}

func c14Families(thorough bool) []check.Family {
	return []check.Family{families.PayloadValidation(thorough), families.ResultValidation(thorough), families.PayloadSingle(), families.ResultSingle(),
		families.PayloadPair(thorough), families.ResultPair(thorough), families.ResultStatus(), families.Errors(),
		families.ValidationIsolated("payload", thorough), families.ValidationIsolated("result", thorough), families.SingleIsolated("payload"), families.SingleIsolated("result"), families.RequiredDefault(), families.CrossService(), families.Views(thorough)}
}

// replay re-executes the method named in a replay file: the family's corpus is built or reused
// and the driver is run restricted to that design and method.
func replay(c *core.Ctx, path string) {
	var cs struct {
		Corpus, Design, Method string
	}
	if err := core.ReplayCase(path, &cs); err != nil {
		c.HarnessError("replay: %v", err)
		return
	}
	for _, thorough := range []bool{false, true} {
		for _, f := range c14Families(thorough) {
			if f.Name != cs.Corpus {
				continue
			}
			corpus, err := check.BuildFamily(c, f)
			if err != nil {
				c.HarnessError("%s: %v", f.Name, err)
				return
			}
			if err := check.RunMode(c, corpus, "C14", "-design", cs.Design, "-method", cs.Method); err != nil {
				c.HarnessError("%s: %v", f.Name, err)
			}
			return
		}
	}
	c.HarnessError("replay: unknown corpus %q", cs.Corpus)
}

func main() { core.Main("C14", run, replay) }

// C20 — generated servers and runtime helpers are safe under concurrent requests.
//
// This program is a DRIVER (see docs/CHECK_AUTHORING.md, "If a check needs an overlay"): the
// exploration itself happens in worker subprocesses built from /repo's current working tree
// with the source instrumenter (verif/instr) and the controlled scheduler (verif/sched).
//
// Alphabet: FAMILY A — the runtime helpers shared by the in-flight requests of a generated
// server, driven directly: ErrorEncoder closure (formatter nil / non-nil) on distinct errors;
// ResponseEncoder with distinct Accept / Content-Type; Muxer.ServeHTTP / Vars /
// ResolvePattern on colliding, distinct and catch-all patterns (with and without the
// RequestID / Trace middlewares) on a muxer built single-threaded, plus concurrent mounting;
// ValidatePattern; adaptive sampler around the rollover and fixed sampler; MergeErrors on
// per-thread errors. (FAMILY B, generated servers and clients, plugs into the same worker.)
// Bound: 2-3 threads x 1-2 operations, every schedule with <= 2 preemptions (thorough: 3 for two
// threads); executions run to completion; explicit step horizon.
// Oracle: happens-before race oracle over every instrumented access; differential per-thread
// oracle (status, headers, body modulo error ID equal the thread's result alone on a fresh
// instance); no deadlock, no panic. Scenario list: checks/c20/scen/scen.go.
package main

import (
	"verif/checks/c20"
	"verif/core"
)

func main() { core.Main("C20", c20.Run, c20.Replay) }

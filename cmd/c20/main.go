// C20 — generated servers and runtime helpers are safe under concurrent requests.
//
// This program is a DRIVER (see docs/CHECK_AUTHORING.md, "If a check needs an overlay"): the
// exploration itself happens in worker subprocesses built from /repo's current working tree
// with the source instrumenter (verif/instr) and the controlled scheduler (verif/sched).
//
// Alphabet: FAMILY A — the runtime helpers shared by the in-flight requests of a generated
// server, driven directly: ErrorEncoder closure (formatter nil / non-nil) on distinct errors;
// ResponseEncoder with distinct Accept / Content-Type; Muxer.ServeHTTP / Vars /
// ResolvePattern on colliding, distinct and catch-all patterns (with and without the
// RequestID / Trace middlewares) on a muxer built single-threaded, plus concurrent mounting;
// ValidatePattern; adaptive sampler around the rollover and fixed sampler; MergeErrors on
// per-thread errors.
// FAMILY B — generated servers and clients (checks/c20b): for every mounted service of a small
// corpus of designs covering every handler shape (payload in path/query/header/body,
// validations, declared errors of every kind and level, undeclared errors, views, Accept
// negotiation) 2-3 threads each issue one request {valid, invalid, declared error, undeclared
// error, other view, other Accept} through the generated client over an in-memory wire.
// REQUEST MATRIX (both families): request kind = negotiated response encoding {json, xml, gob,
// text/plain, text/html} x outcome class {success, validation failure, declared error, undeclared
// error, 404 from the muxer's not-found handler, 405}; a scenario = [sequential prefix request
// run single-threaded on the mounted server: "start from non-initial states"] ; 2-3 requests in
// flight, each a complete round trip client (RequestEncoder, Doer, ResponseDecoder) -> in-memory
// wire (scheduling point) -> server. Family A: all 465 pairs of kinds without prefix, one
// encoding x every prefix outcome x every outcome pair, any prefix kind x success pairs, 3-thread
// samples (quick); the full product {none + 30 prefixes} x 465 pairs and 560 3-thread scenarios
// (thorough). Family B: Accept set on the wire so every generated handler answers in every
// encoding, raw not-found requests, prefix requests (menus in checks/c20b/scen).
// sync.Pool (shim): a Get returns ANY value Put before or a fresh one, every alternative explored.
// Bound: 2-3 threads x 1-2 operations, every schedule with <= 2 preemptions (thorough: 3 for two
// threads); executions run to completion; explicit step horizon.
// Oracle: happens-before race oracle over every instrumented access; differential per-thread
// oracle (status, headers, body modulo error ID equal the thread's result alone on a fresh
// instance WITHOUT prefix and peers; family B additionally: decoded client result or error,
// payload received by the service); no deadlock, no panic. Pool misuse is judged only through
// these oracles. Scenario lists: checks/c20/scen/scen.go, checks/c20/scen/matrix.go,
// checks/c20b/scen/scen.go.
package main

import (
	"os"
	"strings"

	"verif/checks/c20"
	"verif/checks/c20b"
	"verif/core"
	"verif/sched/vrt"
)

func run(c *core.Ctx) {
	// VERIF_C20_FAMILIES=A or B restricts the run (development aid for the mutant self-tests;
	// such a run is reported as incomplete)
	fam := strings.ToUpper(os.Getenv("VERIF_C20_FAMILIES"))
	if fam != "" && fam != "AB" {
		c.Incomplete("restricted to family " + fam + " (VERIF_C20_FAMILIES)")
	}
	if fam == "" || strings.Contains(fam, "A") {
		c20.Run(c) // family A: runtime helpers
	}
	if fam == "" || strings.Contains(fam, "B") {
		c20b.Run(c) // family B: generated servers and clients
	}
}

func replay(c *core.Ctx, path string) {
	var rc vrt.ReplayCase
	if err := core.ReplayCase(path, &rc); err != nil {
		c.HarnessError("replay: %v", err)
		return
	}
	if rc.Check == "c20b" {
		c20b.Replay(c, path)
		return
	}
	c20.Replay(c, path)
}

func main() { core.Main("C20", run, replay) }

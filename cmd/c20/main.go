// C20 — generated servers and runtime helpers are safe under concurrent requests.
//
// This program is a DRIVER (see docs/CHECK_AUTHORING.md, "If a check needs an overlay"): the
// exploration itself happens in worker subprocesses built from /repo's current working tree
// with the source instrumenter (verif/instr) and the controlled scheduler (verif/sched).
//
// Alphabet: FAMILY A — the runtime helpers shared by the in-flight requests of a generated
// server, driven directly: ErrorEncoder closure (formatter nil / non-nil) on distinct errors;
// ResponseEncoder with distinct Accept / Content-Type; Muxer.ServeHTTP / Vars /
// ResolvePattern on colliding, distinct and catch-all patterns (with and without the
// RequestID / Trace middlewares) on a muxer built single-threaded, plus concurrent mounting;
// ValidatePattern; adaptive sampler around the rollover and fixed sampler; MergeErrors on
// per-thread errors.
// FAMILY B — generated servers and clients (checks/c20b): for every mounted service of a small
// corpus of designs covering every handler shape (payload in path/query/header/body,
// validations, declared errors of every kind and level, undeclared errors, views, Accept
// negotiation) 2-3 threads each issue one request {valid, invalid, declared error, undeclared
// error, other view, other Accept} through the generated client over an in-memory wire.
// Bound: 2-3 threads x 1-2 operations, every schedule with <= 2 preemptions (thorough: 3 for two
// threads); executions run to completion; explicit step horizon.
// Oracle: happens-before race oracle over every instrumented access; differential per-thread
// oracle (status, headers, body modulo error ID equal the thread's result alone on a fresh
// instance; family B additionally: decoded client result or error, payload received by the
// service); no deadlock, no panic. Scenario lists: checks/c20/scen/scen.go, checks/c20b/scen/scen.go.
package main

import (
	"os"
	"strings"

	"verif/checks/c20"
	"verif/checks/c20b"
	"verif/core"
	"verif/sched/vrt"
)

func run(c *core.Ctx) {
	// VERIF_C20_FAMILIES=A or B restricts the run (development aid for the mutant self-tests;
	// such a run is reported as incomplete)
	fam := strings.ToUpper(os.Getenv("VERIF_C20_FAMILIES"))
	if fam != "" && fam != "AB" {
		c.Incomplete("restricted to family " + fam + " (VERIF_C20_FAMILIES)")
	}
	if fam == "" || strings.Contains(fam, "A") {
		c20.Run(c) // family A: runtime helpers
	}
	if fam == "" || strings.Contains(fam, "B") {
		c20b.Run(c) // family B: generated servers and clients
	}
}

func replay(c *core.Ctx, path string) {
	var rc vrt.ReplayCase
	if err := core.ReplayCase(path, &rc); err != nil {
		c.HarnessError("replay: %v", err)
		return
	}
	if rc.Check == "c20b" {
		c20b.Replay(c, path)
		return
	}
	c20.Replay(c, path)
}

func main() { core.Main("C20", run, replay) }

// genworker evaluates one design Spec with the real goa DSL engine and runs the real
// generators in a fresh process (no generator cache, validation memo or name scope survives
// between designs). Panics, errors and the outcome of every stage are reported as JSON.
//
//	genworker -spec file.json -out dir [-cmds gen,example] [-evalonly]
package main

import (
	"encoding/json"
	"flag"
	"fmt"
	"os"
	"runtime/debug"
	"strings"

	"goa.design/goa/v3/codegen/generator"
	"goa.design/goa/v3/eval"

	"verif/e2/build"
	"verif/e2/spec"
)

type result struct {
	Spec    string              `json:"spec"`
	Stage   string              `json:"stage"` // last stage reached: build, eval, gen, example, done
	OK      bool                `json:"ok"`
	Error   string              `json:"error,omitempty"`
	Panic   string              `json:"panic,omitempty"`
	Stack   string              `json:"stack,omitempty"`
	Outputs map[string][]string `json:"outputs,omitempty"`
}

func main() {
	specPath := flag.String("spec", "", "spec json")
	out := flag.String("out", "", "output directory (inside a Go module)")
	cmds := flag.String("cmds", "gen", "comma separated generator commands")
	evalOnly := flag.Bool("evalonly", false, "stop after DSL evaluation")
	flag.Parse()
	res := &result{Outputs: map[string][]string{}}
	defer func() {
		if r := recover(); r != nil {
			res.OK = false
			res.Panic = fmt.Sprint(r)
			res.Stack = string(debug.Stack())
		}
		b, _ := json.Marshal(res)
		fmt.Println(string(b))
	}()
	b, err := os.ReadFile(*specPath)
	if err != nil {
		res.Stage, res.Error = "read", err.Error()
		return
	}
	var s spec.Spec
	if err := json.Unmarshal(b, &s); err != nil {
		res.Stage, res.Error = "read", err.Error()
		return
	}
	res.Spec = s.Name
	res.Stage = "build"
	build.Build(&s)
	if eval.Context.Errors != nil {
		res.Stage, res.Error = "eval", eval.Context.Errors.Error()
		return
	}
	res.Stage = "eval"
	if err := eval.RunDSL(); err != nil {
		res.Error = err.Error()
		return
	}
	if *evalOnly {
		res.OK, res.Stage = true, "done"
		return
	}
	for _, cmd := range strings.Split(*cmds, ",") {
		res.Stage = cmd
		outs, err := generator.Generate(*out, cmd)
		if err != nil {
			res.Error = err.Error()
			return
		}
		res.Outputs[cmd] = outs
	}
	res.OK, res.Stage = true, "done"
}

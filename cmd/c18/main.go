// C18 — error merging and status mapping follow fixed algebraic rules.
//
// Alphabet: error atoms (service errors with every flag combination, generic/specific names,
// with/without field and cause; plain errors; wrapped service errors; nil).
// Bound: every sequence of length 0..N under every parenthesisation (Catalan many), atoms
// rebuilt fresh for every grouping because MergeErrors mutates its first argument.
// Oracle: an independent reference fold (join, AND, first specific name, history = the
// original atoms) + the documented HTTP / gRPC status tables + gRPC encode/decode round trip.
package main

import (
	"context"
	"errors"
	"fmt"
	"strings"

	goagrpc "goa.design/goa/v3/grpc"
	goapb "goa.design/goa/v3/grpc/pb"
	goahttp "goa.design/goa/v3/http"
	goa "goa.design/goa/v3/pkg"
	"google.golang.org/grpc/codes"
	"google.golang.org/grpc/status"

	"verif/core"
)

// atomKind describes how to build one error atom. pos gives it a unique message.
type atomKind struct {
	Label   string
	Nil     bool
	Plain   bool // errors.New
	Wrapped bool // fmt.Errorf("w: %w", serviceError)
	Name    string
	Timeout bool
	Temp    bool
	Fault   bool
	Field   bool
	Cause   bool // built with NewServiceError(cause, ...)
}

// refAtom is what the reference model knows about an atom: fixed at construction time,
// never read back from goa after a merge.
type refAtom struct {
	err     error
	name    string
	msg     string
	timeout bool
	temp    bool
	fault   bool
	field   *string
	cause   error // may be nil
	kind    atomKind
}

func build(k atomKind, pos int) *refAtom {
	if k.Nil {
		return nil
	}
	msg := fmt.Sprintf("m%d", pos)
	if k.Plain {
		e := errors.New(msg)
		return &refAtom{err: e, name: "error", msg: msg, fault: true, cause: e, kind: k}
	}
	var se *goa.ServiceError
	var cause error
	if k.Cause {
		cause = errors.New(msg)
		se = goa.NewServiceError(cause, k.Name, k.Timeout, k.Temp, k.Fault)
	} else {
		se = &goa.ServiceError{Name: k.Name, ID: goa.NewErrorID(), Message: msg, Timeout: k.Timeout, Temporary: k.Temp, Fault: k.Fault}
	}
	var field *string
	if k.Field {
		f := fmt.Sprintf("f%d", pos)
		se.Field = &f
		f2 := f
		field = &f2
	}
	var err error = se
	if k.Wrapped {
		err = fmt.Errorf("w%d: %w", pos, se)
	}
	return &refAtom{err: err, name: k.Name, msg: msg, timeout: k.Timeout, temp: k.Temp, fault: k.Fault, field: field, cause: cause, kind: k}
}

func flagStr(t, tmp, f bool) string {
	b := func(x bool) byte {
		if x {
			return '1'
		}
		return '0'
	}
	return string([]byte{b(t), b(tmp), b(f)})
}

func fullAtoms() []atomKind {
	out := []atomKind{{Label: "nil", Nil: true}, {Label: "plain", Plain: true}}
	for _, name := range []string{"error", "a", "b"} {
		for fl := 0; fl < 8; fl++ {
			for _, field := range []bool{false, true} {
				for _, cause := range []bool{false, true} {
					k := atomKind{Name: name, Timeout: fl&4 != 0, Temp: fl&2 != 0, Fault: fl&1 != 0, Field: field, Cause: cause}
					k.Label = fmt.Sprintf("se(%s,%s,field=%v,cause=%v)", name, flagStr(k.Timeout, k.Temp, k.Fault), field, cause)
					out = append(out, k)
				}
			}
		}
	}
	for fl := 0; fl < 8; fl += 3 {
		k := atomKind{Wrapped: true, Name: "c", Timeout: fl&4 != 0, Temp: fl&2 != 0, Fault: fl&1 != 0, Cause: fl == 3}
		k.Label = fmt.Sprintf("wrapped(c,%s)", flagStr(k.Timeout, k.Temp, k.Fault))
		out = append(out, k)
	}
	return out
}

func reducedAtoms() []atomKind {
	return []atomKind{
		{Label: "nil", Nil: true},
		{Label: "plain", Plain: true},
		{Label: "se(error,000)", Name: "error"},
		{Label: "se(a,111,field)", Name: "a", Timeout: true, Temp: true, Fault: true, Field: true},
		{Label: "se(b,110,cause)", Name: "b", Timeout: true, Temp: true, Cause: true},
		{Label: "se(error,011,field,cause)", Name: "error", Temp: true, Fault: true, Field: true, Cause: true},
		{Label: "wrapped(c,101)", Wrapped: true, Name: "c", Timeout: true, Fault: true},
		{Label: "se(a,010)", Name: "a", Temp: true},
	}
}

func tinyAtoms() []atomKind {
	r := reducedAtoms()
	return []atomKind{r[0], r[1], r[2], r[3]}
}

// merge folds the atoms according to the tree with the real MergeErrors.
func merge(t *core.Tree, atoms []*refAtom) error {
	if t.L == nil {
		if atoms[t.Leaf] == nil {
			return nil
		}
		return atoms[t.Leaf].err
	}
	return goa.MergeErrors(merge(t.L, atoms), merge(t.R, atoms))
}

type caseDesc struct {
	Atoms    []atomKind `json:"atoms"`
	Grouping string     `json:"grouping"`
}

func posClass(i, n int) string {
	switch {
	case i == 0:
		return "first"
	case i == n-1:
		return "last"
	}
	return "middle"
}

func kindClass(k atomKind) string {
	switch {
	case k.Plain:
		return "plain"
	case k.Wrapped:
		return "wrapped"
	case k.Name == "error":
		return "generic-service-error"
	}
	return "named-service-error"
}

func groupClass(t *core.Tree) string {
	if t.L == nil {
		return "leaf"
	}
	left, right := true, true
	for n := t; n.L != nil; n = n.L {
		if n.R.L != nil {
			left = false
		}
	}
	for n := t; n.L != nil; n = n.R {
		if n.L.L != nil {
			right = false
		}
	}
	switch {
	case left && right:
		return "pair"
	case left:
		return "left-fold"
	case right:
		return "right-fold"
	}
	return "mixed"
}

type failure struct{ sig, what string }

// checkOne runs one (sequence, grouping) and returns oracle failures.
func checkOne(kinds []atomKind, t *core.Tree) (fails []failure, outcome string) {
	atoms := make([]*refAtom, len(kinds))
	for i, k := range kinds {
		atoms[i] = build(k, i)
	}
	var res error
	if len(kinds) > 0 {
		res = merge(t, atoms)
	}
	var live []*refAtom
	var livePos []int
	for i, a := range atoms {
		if a != nil {
			live = append(live, a)
			livePos = append(livePos, i)
		}
	}
	gc := "none"
	if t != nil {
		gc = groupClass(t)
	}
	add := func(sig, what string) { fails = append(fails, failure{sig, what}) }
	switch len(live) {
	case 0:
		if res != nil {
			add("nil-identity all-nil result=non-nil", fmt.Sprintf("merging only nils returned %v", res))
		}
		return fails, "nil"
	case 1:
		if res != live[0].err {
			add("nil-identity single kind="+kindClass(live[0].kind), fmt.Sprintf("merging %s with nils did not return it unchanged: %#v", live[0].kind.Label, res))
			return fails, "single"
		}
		// merging with nil changes nothing: observable fields still the reference ones
		var se *goa.ServiceError
		if errors.As(res, &se) {
			if se.Message != live[0].msg || se.Name != live[0].name || len(se.History()) != 1 {
				add("nil-identity single-mutated kind="+kindClass(live[0].kind), "merging with nil changed the error")
			}
		}
		return fails, "single"
	}
	se, ok := res.(*goa.ServiceError)
	if !ok {
		add("result-type", fmt.Sprintf("merge result is %T, not *ServiceError", res))
		return fails, "badtype"
	}
	// reference fold
	var msgs []string
	name := "error"
	timeout, temp, fault := true, true, true
	for _, a := range live {
		msgs = append(msgs, a.msg)
		if name == "error" && a.name != "error" {
			name = a.name
		}
		timeout = timeout && a.timeout
		temp = temp && a.temp
		fault = fault && a.fault
	}
	wantMsg := strings.Join(msgs, "; ")
	if se.Message != wantMsg {
		add("message grouping="+gc, fmt.Sprintf("message %q, want %q", se.Message, wantMsg))
	}
	if se.Name != name {
		add("name grouping="+gc, fmt.Sprintf("name %q, want first specific name %q", se.Name, name))
	}
	if se.Timeout != timeout || se.Temporary != temp || se.Fault != fault {
		add("flags grouping="+gc, fmt.Sprintf("flags %s, want conjunction %s", flagStr(se.Timeout, se.Temporary, se.Fault), flagStr(timeout, temp, fault)))
	}
	hist := se.History()
	if len(hist) != len(live) {
		add(fmt.Sprintf("history-length grouping=%s", gc), fmt.Sprintf("history has %d entries for %d merged errors", len(hist), len(live)))
	} else {
		for i, h := range hist {
			a := live[i]
			pc := posClass(i, len(live))
			kc := kindClass(a.kind)
			if h.Name != a.name {
				add(fmt.Sprintf("history-entry field=name pos=%s kind=%s grouping=%s", pc, kc, gc),
					fmt.Sprintf("history[%d].Name=%q, original error %s had name %q", i, h.Name, a.kind.Label, a.name))
			}
			if h.Message != a.msg {
				add(fmt.Sprintf("history-entry field=message pos=%s kind=%s grouping=%s", pc, kc, gc),
					fmt.Sprintf("history[%d].Message=%q, original message %q", i, h.Message, a.msg))
			}
			if (h.Field == nil) != (a.field == nil) || (h.Field != nil && *h.Field != *a.field) {
				add(fmt.Sprintf("history-entry field=field pos=%s kind=%s grouping=%s", pc, kc, gc),
					fmt.Sprintf("history[%d].Field differs from the original's", i))
			}
			if h.Timeout != a.timeout || h.Temporary != a.temp || h.Fault != a.fault {
				add(fmt.Sprintf("history-entry field=flags pos=%s kind=%s grouping=%s", pc, kc, gc),
					fmt.Sprintf("history[%d] flags %s, original %s", i, flagStr(h.Timeout, h.Temporary, h.Fault), flagStr(a.timeout, a.temp, a.fault)))
			}
		}
	}
	for i, a := range live {
		if a.cause != nil && !errors.Is(se, a.cause) {
			add(fmt.Sprintf("cause-unreachable pos=%s kind=%s grouping=%s", posClass(i, len(live)), kindClass(a.kind), gc),
				fmt.Sprintf("errors.Is(result, cause of #%d) is false", livePos[i]))
		}
	}
	return fails, fmt.Sprintf("n=%d name=%s flags=%s", len(live), name, flagStr(timeout, temp, fault))
}

func runMerge(c *core.Ctx, atoms []atomKind, maxLen int, tag string) {
	groupings := map[int][]*core.Tree{}
	for n := 1; n <= maxLen; n++ {
		groupings[n] = core.Groupings(0, n)
	}
	for n := 0; n <= maxLen; n++ {
		if c.Expired() {
			c.Incomplete(fmt.Sprintf("%s: stopped before length %d", tag, n))
			return
		}
		// collect sequences to shard over cores
		total := 1
		for i := 0; i < n; i++ {
			total *= len(atoms)
		}
		gs := groupings[n]
		if n == 0 {
			gs = []*core.Tree{nil}
		}
		const chunk = 4096
		nchunks := (total + chunk - 1) / chunk
		core.Parallel(nchunks, func(ci int) {
			var execs int64
			kinds := make([]atomKind, n)
			for s := ci * chunk; s < total && s < (ci+1)*chunk; s++ {
				x := s
				nonNil := 0
				for i := n - 1; i >= 0; i-- {
					kinds[i] = atoms[x%len(atoms)]
					if !kinds[i].Nil {
						nonNil++
					}
					x /= len(atoms)
				}
				var key strings.Builder
				for _, k := range kinds {
					key.WriteString(k.Label)
					key.WriteByte('|')
				}
				c.State(tag+key.String(), nonNil >= 2)
				for _, g := range gs {
					fails, outcome := checkOne(kinds, g)
					execs++
					if s%257 == 0 {
						c.Outcome(outcome)
					}
					gstr := ""
					if g != nil {
						gstr = g.String()
					}
					if s%1021 == 0 && g == gs[len(gs)-1] {
						c.Sample(caseDesc{Atoms: append([]atomKind{}, kinds...), Grouping: gstr})
					}
					for _, f := range fails {
						kk := append([]atomKind{}, kinds...)
						gg := g
						sig := f.sig
						c.Violation("merge "+f.sig, f.what+fmt.Sprintf(" [atoms=%s grouping=%s]", key.String(), gstr),
							caseDesc{Atoms: kk, Grouping: gstr},
							func() bool {
								again, _ := checkOne(kk, gg)
								for _, a := range again {
									if a.sig == sig {
										return true
									}
								}
								return false
							})
					}
				}
			}
			c.Exec(execs)
		})
	}
}

func runStatus(c *core.Ctx) {
	names := []string{"x", "error", goa.UnsupportedMediaType, goa.InvalidFieldType, goa.MissingField, goa.InvalidEnumValue,
		goa.InvalidFormat, goa.InvalidPattern, goa.InvalidRange, goa.InvalidLength, "missing_payload", "decode_payload", ""}
	refHTTP := func(name string, timeout, temp, fault bool) int {
		switch {
		case name == "unsupported_media_type":
			return 415
		case fault:
			return 500
		case timeout && temp:
			return 504
		case timeout:
			return 408
		case temp:
			return 503
		}
		return 400
	}
	refGRPC := func(timeout, temp, fault bool) codes.Code {
		switch {
		case temp:
			return codes.Unavailable
		case timeout:
			return codes.DeadlineExceeded
		case fault:
			return codes.Internal
		}
		return codes.Unknown
	}
	for _, name := range names {
		for fl := 0; fl < 8; fl++ {
			for _, wrap := range []bool{false, true} {
				timeout, temp, fault := fl&4 != 0, fl&2 != 0, fl&1 != 0
				se := &goa.ServiceError{Name: name, ID: goa.NewErrorID(), Message: "msg " + name, Timeout: timeout, Temporary: temp, Fault: fault}
				var err error = se
				if wrap {
					err = fmt.Errorf("ctx: %w", se)
				}
				key := fmt.Sprintf("status name=%s flags=%s wrap=%v", name, flagStr(timeout, temp, fault), wrap)
				c.State(key, true)
				c.Exec(2)
				resp := goahttp.NewErrorResponse(context.Background(), err)
				er, _ := resp.(*goahttp.ErrorResponse)
				want := refHTTP(name, timeout, temp, fault)
				c.Outcome(fmt.Sprintf("http=%d", resp.StatusCode()))
				nameClass := "ordinary"
				if name == goa.UnsupportedMediaType {
					nameClass = "unsupported_media_type"
				}
				if resp.StatusCode() != want {
					c.Violation(fmt.Sprintf("http-status name=%s flags=%s", nameClass, flagStr(timeout, temp, fault)),
						fmt.Sprintf("%s: StatusCode()=%d, documented table says %d", key, resp.StatusCode(), want), key, nil)
				}
				if er == nil || er.Name != name || er.ID != se.ID || er.Message != se.Message || er.Timeout != timeout || er.Temporary != temp || er.Fault != fault {
					c.Violation("http-error-response-fields wrap="+fmt.Sprint(wrap), key+": ErrorResponse does not carry the error's name/id/message/flags", key, nil)
				}
				// gRPC
				st := goagrpc.EncodeError(err)
				s, ok := status.FromError(st)
				if !ok {
					c.Violation("grpc-encode-not-status", key+": EncodeError did not return a status error", key, nil)
					continue
				}
				c.Outcome("grpc=" + s.Code().String())
				if s.Code() != refGRPC(timeout, temp, fault) {
					c.Violation(fmt.Sprintf("grpc-code flags=%s", flagStr(timeout, temp, fault)),
						fmt.Sprintf("%s: code %s, documented table says %s", key, s.Code(), refGRPC(timeout, temp, fault)), key, nil)
				}
				msg := goagrpc.DecodeError(st)
				pb, ok := msg.(*goapb.ErrorResponse)
				if !ok {
					c.Violation("grpc-decode-missing", key+": DecodeError did not return the ErrorResponse detail", key, nil)
					continue
				}
				back := goagrpc.NewServiceError(pb)
				if back.Name != name || back.ID != se.ID || back.Message != se.Message || back.Timeout != timeout || back.Temporary != temp || back.Fault != fault {
					c.Violation("grpc-roundtrip-fields wrap="+fmt.Sprint(wrap),
						fmt.Sprintf("%s: decoded %+v differs from the original", key, back), key, nil)
				}
			}
		}
	}
	// non-service errors
	for _, e := range []error{errors.New("boom"), fmt.Errorf("outer: %w", errors.New("inner"))} {
		key := "status plain " + e.Error()
		c.State(key, true)
		c.Exec(2)
		resp := goahttp.NewErrorResponse(context.Background(), e)
		er, _ := resp.(*goahttp.ErrorResponse)
		if resp.StatusCode() != 500 || er == nil || !er.Fault || er.Message != e.Error() {
			c.Violation("http-status plain-error", key+": plain error is not mapped to a 500 fault carrying its message", key, nil)
		}
		st := goagrpc.EncodeError(e)
		s, _ := status.FromError(st)
		pb, _ := goagrpc.DecodeError(st).(*goapb.ErrorResponse)
		if s == nil || s.Code() != codes.Unknown || pb == nil || !pb.Fault || pb.Msg != e.Error() {
			c.Violation("grpc-code plain-error", key+": plain error is not mapped to Unknown with the fault flag", key, nil)
		}
	}
	// existing gRPC status errors keep their code
	for _, code := range []codes.Code{codes.NotFound, codes.PermissionDenied, codes.Internal, codes.Unavailable} {
		e := status.Error(code, "st")
		key := "status grpc-status " + code.String()
		c.State(key, true)
		c.Exec(1)
		s, _ := status.FromError(goagrpc.EncodeError(e))
		if s == nil || s.Code() != code {
			c.Violation("grpc-code status-error-code-changed", key+": an existing status error lost its code", key, nil)
		}
	}
	// merged errors through the status tables
	for fl1 := 0; fl1 < 8; fl1++ {
		for fl2 := 0; fl2 < 8; fl2++ {
			a := &goa.ServiceError{Name: "a", ID: "ida", Message: "ma", Timeout: fl1&4 != 0, Temporary: fl1&2 != 0, Fault: fl1&1 != 0}
			b := &goa.ServiceError{Name: "b", ID: "idb", Message: "mb", Timeout: fl2&4 != 0, Temporary: fl2&2 != 0, Fault: fl2&1 != 0}
			m := goa.MergeErrors(a, b)
			fl := fl1 & fl2
			key := fmt.Sprintf("status merged %03b&%03b", fl1, fl2)
			c.State(key, true)
			c.Exec(1)
			want := refHTTP("a", fl&4 != 0, fl&2 != 0, fl&1 != 0)
			if got := goahttp.NewErrorResponse(context.Background(), m).StatusCode(); got != want {
				c.Violation(fmt.Sprintf("http-status merged flags=%03b", fl), fmt.Sprintf("%s: status %d want %d", key, got, want), key, nil)
			}
		}
	}
}

func run(c *core.Ctx) {
	c.Rule("every sequence of error atoms up to the stated length (complete product over the atom alphabet) under every parenthesisation; " +
		"a sequence is one state, one (sequence, grouping) fold through the real MergeErrors is one transition; non-trivial = at least two non-nil atoms. " +
		"Plus the complete name x flag table for HTTP/gRPC status mapping and round trip.")
	c.Assume("a wrapped service error (fmt.Errorf %w) is identified with the service error it wraps; the wrapper's own prefix text is not required in the merged message")
	c.Assume("gRPC code table taken from the EncodeError doc comment + heuristic: temporary->Unavailable, else timeout->DeadlineExceeded, else fault->Internal, else Unknown")
	full := fullAtoms()
	red := reducedAtoms()
	tiny := tinyAtoms()
	c.Note("atom_alphabet_full", len(full))
	c.Note("atom_alphabet_reduced", len(red))
	if c.Thorough() {
		runMerge(c, full, 3, "full:")
		runMerge(c, red, 6, "reduced:")
		runMerge(c, tiny, 8, "tiny:")
		c.Note("bounds", "full alphabet len<=3; reduced (8 atoms) len<=6; tiny (4 atoms) len<=8; all groupings")
	} else {
		runMerge(c, full, 2, "full:")
		runMerge(c, red, 5, "reduced:")
		c.Note("bounds", "full alphabet len<=2; reduced (8 atoms) len<=5; all groupings")
	}
	runStatus(c)
}

func replay(c *core.Ctx, path string) {
	var cd caseDesc
	if err := core.ReplayCase(path, &cd); err != nil || len(cd.Atoms) == 0 {
		// status cases carry a string key only; rerun the (tiny) status table
		runStatus(c)
		return
	}
	for _, g := range core.Groupings(0, len(cd.Atoms)) {
		if g.String() != cd.Grouping {
			continue
		}
		fails, outcome := checkOne(cd.Atoms, g)
		c.Exec(1)
		fmt.Printf("replay atoms=%d grouping=%s outcome=%s failures=%d\n", len(cd.Atoms), cd.Grouping, outcome, len(fails))
		for _, f := range fails {
			fmt.Printf("  %s: %s\n", f.sig, f.what)
			c.Violation("merge "+f.sig, f.what, cd, nil)
		}
	}
}

func main() { core.Main("C18", run, replay) }

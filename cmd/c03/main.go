// C03 — HTTP responses deliver the result intact to the client caller.
package main

import (
	"os"

	"verif/core"
	"verif/e2/check"
	"verif/e2/families"
	"verif/e2/spec"
)

func run(c *core.Ctx) {
	c.Rule("designs: complete product type x response location (header, cookie, body) x requiredness with one result attribute per method (L1-single), ordered pairs over a reduced menu (L1-pair), " +
		"and the status/tag family (every plain success status, 204 without body, tag-selected responses with required/optional/defaulted tag attribute in body or header); " +
		"values: the full boundary menu per attribute, complete product per method; one case = (method, result value returned by the stub service); " +
		"every case is one generated-client -> wire -> generated-server -> stub -> back execution; non-trivial = all (a result is always returned)")
	c.Assume("nil and empty collections are equal; an attribute with a design default that the service left unset is seen with the default; zero of a defaulted primitive (non-pointer field) may be seen as zero or default")
	c.Assume("values the transport cannot carry are outside the alphabet: control characters in headers, RFC 6265-forbidden cookie characters")
	c.Assume("the wire is in-memory: http.Request.Write -> http.ReadRequest -> goa muxer on an httptest recorder; the client decodes recorder.Result()")
	fams := []check.Family{families.ResultSingle(), families.ResultPair(c.Thorough()), families.ResultStatus(), families.Features(), families.CrossService(), families.DeepResultShapes(c.Thorough())}
	c.Rule("deep type structure (JSON bodies): " + spec.DeepShapesDoc + "; values as in C02")
	if families.OnlyStreams(c) || families.OnlySequences(c) {
		fams = nil
	}
	for _, f := range fams {
		corpus, err := check.BuildFamily(c, f)
		if err != nil {
			c.HarnessError("%s: %v", f.Name, err)
			return
		}
		if err := check.RunMode(c, corpus, "C03"); err != nil {
			c.HarnessError("%s: %v", f.Name, err)
		}
	}
	// both tiers: operation sequences on one client object and one mounted server, response side
	// (driver mode C03Q, e2/drv/opseq.go)
	if os.Getenv("VERIF_ONLY_STREAMS") == "" {
		families.RunSequences(c, "C03Q")
	}
	// thorough tier: HTTP (WebSocket) streaming endpoints, streamed results and the final result
	// of client-streaming endpoints (driver mode C03S, e2/drv/c03stream.go)
	families.RunStreams(c, "C03S")
}

func main() { core.Main("C03", run, nil) }

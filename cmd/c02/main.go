// C02 — HTTP requests deliver the payload intact to the service method.
package main

import (
	"os"

	"verif/core"
	"verif/e2/check"
	"verif/e2/families"
	"verif/e2/spec"
)

func run(c *core.Ctx) {
	c.Rule("designs: complete product type x location x requiredness with one attribute per method (L1-single) and ordered pairs over a reduced menu (L1-pair), " +
		"filtered through goa's own DSL evaluation; values: per attribute the full boundary menu of its type at its location, complete product over the attributes of a method; " +
		"one case = (method, payload value); non-trivial = payload is set; every case is one generated-client -> wire -> generated-server -> stub execution")
	c.Assume("nil and empty collections are equal; an unset attribute with a design default arrives as the default; zero of a defaulted primitive (non-pointer field) may arrive as zero or default")
	c.Assume("values the transport cannot carry are outside the alphabet: empty path segment, control characters outside bodies, RFC 6265-forbidden cookie characters")
	c.Assume("the wire is in-memory: http.Request.Write -> http.ReadRequest -> goa muxer on an httptest recorder (exact net/http serialisation and parsing, no sockets)")
	fams := []check.Family{families.PayloadSingle(), families.PayloadPair(c.Thorough()), families.Features(), families.CrossService(), families.DeepPayloadShapes(c.Thorough())}
	c.Rule("deep type structure (JSON bodies): " + spec.DeepShapesDoc + "; values: union = every candidate of every alternative; collections = empty, one, two, three elements and one element per distinct violated-rule set; objects nested up to 6 levels")
	if families.OnlyStreams(c) || families.OnlySequences(c) {
		fams = nil
	}
	for _, f := range fams {
		corpus, err := check.BuildFamily(c, f)
		if err != nil {
			c.HarnessError("%s: %v", f.Name, err)
			return
		}
		if err := check.RunMode(c, corpus, "C02"); err != nil {
			c.HarnessError("%s: %v", f.Name, err)
		}
	}
	// both tiers: operation sequences on one client object and one mounted server, request side
	// (driver mode C02Q, e2/drv/opseq.go)
	if os.Getenv("VERIF_ONLY_STREAMS") == "" {
		families.RunSequences(c, "C02Q")
	}
	// thorough tier: HTTP (WebSocket) streaming endpoints, initial payload and streamed requests
	// (driver mode C02S, e2/drv/c02stream.go)
	families.RunStreams(c, "C02S")
}

func main() { core.Main("C02", run, nil) }

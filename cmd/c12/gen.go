package main

import (
	"embed"
	"encoding/json"
	"fmt"
	"go/ast"
	"go/parser"
	"go/token"
	"os"
	"os/exec"
	"path/filepath"
	"sort"
	"strings"

	"verif/core"
)

// The worker sources live in ./worker (a normal package of module verif, with an empty
// function table so that `go build ./...` works). They are embedded here so that the check
// binary is self-contained: at run time they are written next to the generated function table
// under /verif/.work/c12/worker and built from there.
//
//go:embed worker/*.go
var workerFS embed.FS

type workerInfo struct {
	Functions []struct {
		Name      string `json:"name"`
		Signature string `json:"signature"`
		Vectors   int    `json:"vectors"`
	} `json:"functions"`
	Contexts          []string       `json:"contexts"`
	RelevantContexts  []string       `json:"relevant_contexts"`
	DanglingTemplates []string       `json:"dangling_templates"`
	RefKinds          map[string]any `json:"referred_type_kinds"`
	Cred              map[string]any `json:"requirement_credential_family"`
	Menus             map[string]int `json:"menus"`
}

type harness struct {
	bin     string // worker binary
	workDir string
	menus   string // "quick" or "full"
	info    workerInfo
	env     []string
	// fatalSigs caches the signature of process-killing programs by (kind, site, shape)
	fatalSigs map[string]string
}

func goEnv() []string {
	env := os.Environ()
	has := func(k string) bool { return os.Getenv(k) != "" }
	if !has("GOFLAGS") {
		env = append(env, "GOFLAGS=-mod=mod")
	} else if !strings.Contains(os.Getenv("GOFLAGS"), "-mod=") {
		env = append(env, "GOFLAGS="+os.Getenv("GOFLAGS")+" -mod=mod")
	}
	if !has("GOPROXY") {
		env = append(env, "GOPROXY=off")
	}
	if !has("GOSUMDB") {
		env = append(env, "GOSUMDB=off")
	}
	if !has("GOTOOLCHAIN") {
		env = append(env, "GOTOOLCHAIN=local")
	}
	return env
}

// overlayFor returns the replacement map of a `-overlay=file` given through GOFLAGS (used to
// run the check against mutated copies of goa sources without touching /repo).
func overlayFor() map[string]string {
	for _, f := range strings.Fields(os.Getenv("GOFLAGS")) {
		if strings.HasPrefix(f, "-overlay=") {
			b, err := os.ReadFile(strings.TrimPrefix(f, "-overlay="))
			if err != nil {
				return nil
			}
			var doc struct{ Replace map[string]string }
			if json.Unmarshal(b, &doc) == nil {
				return doc.Replace
			}
		}
	}
	return nil
}

// dslFunctions parses <repo>/dsl/*.go (honouring a build overlay) and returns the names of
// all exported package-level functions: the function table follows the working tree.
func dslFunctions(repo string) ([]string, error) {
	dir := filepath.Join(repo, "dsl")
	entries, err := os.ReadDir(dir)
	if err != nil {
		return nil, err
	}
	overlay := overlayFor()
	files := map[string]string{}
	for _, e := range entries {
		n := e.Name()
		if e.IsDir() || !strings.HasSuffix(n, ".go") || strings.HasSuffix(n, "_test.go") {
			continue
		}
		p := filepath.Join(dir, n)
		files[p] = p
	}
	for orig, repl := range overlay {
		if filepath.Dir(orig) == dir && strings.HasSuffix(orig, ".go") && !strings.HasSuffix(orig, "_test.go") {
			if repl == "" {
				delete(files, orig)
			} else {
				files[orig] = repl
			}
		}
	}
	var names []string
	fset := token.NewFileSet()
	for orig, path := range files {
		f, err := parser.ParseFile(fset, path, nil, parser.SkipObjectResolution)
		if err != nil {
			return nil, fmt.Errorf("%s: %v", orig, err)
		}
		if f.Name.Name != "dsl" {
			continue
		}
		for _, d := range f.Decls {
			fd, ok := d.(*ast.FuncDecl)
			if !ok || fd.Recv != nil || !fd.Name.IsExported() || fd.Type.TypeParams != nil {
				continue
			}
			names = append(names, fd.Name.Name)
		}
	}
	sort.Strings(names)
	return names, nil
}

func prepare(c *core.Ctx, menus string) (ret *harness) {
	root := core.Root()
	// one work directory per process so that two runs (a check and a replay, two tiers) never
	// share the generated sources, the worker binary or the selection file
	rel := filepath.Join(".work", "c12", fmt.Sprintf("run-%d", os.Getpid()))
	h := &harness{workDir: filepath.Join(root, rel), menus: menus, env: goEnv()}
	defer func() {
		if ret == nil {
			h.cleanup()
		}
	}()
	src := filepath.Join(h.workDir, "worker")
	if err := os.RemoveAll(src); err != nil {
		c.HarnessError("cannot clean %s: %v", src, err)
		return nil
	}
	if err := os.MkdirAll(src, 0o755); err != nil {
		c.HarnessError("cannot create %s: %v", src, err)
		return nil
	}
	entries, _ := workerFS.ReadDir("worker")
	for _, e := range entries {
		b, err := workerFS.ReadFile("worker/" + e.Name())
		if err != nil {
			c.HarnessError("embedded worker source %s: %v", e.Name(), err)
			return nil
		}
		if err := os.WriteFile(filepath.Join(src, e.Name()), b, 0o644); err != nil {
			c.HarnessError("write worker source: %v", err)
			return nil
		}
	}
	names, err := dslFunctions(core.RepoDir())
	if err != nil || len(names) == 0 {
		c.HarnessError("cannot enumerate DSL functions of %s/dsl: %v", core.RepoDir(), err)
		return nil
	}
	var sb strings.Builder
	sb.WriteString("//go:build c12table\n\n// Code generated by the C12 driver from the dsl package sources. DO NOT EDIT.\n\npackage main\n\nimport (\n\t\"reflect\"\n\n\t\"goa.design/goa/v3/dsl\"\n)\n\nvar Table = []Fn{\n")
	for _, n := range names {
		fmt.Fprintf(&sb, "\t{%q, reflect.ValueOf(dsl.%s)},\n", n, n)
	}
	sb.WriteString("}\n")
	if err := os.WriteFile(filepath.Join(src, "table_gen.go"), []byte(sb.String()), 0o644); err != nil {
		c.HarnessError("write table: %v", err)
		return nil
	}
	h.bin = filepath.Join(h.workDir, "c12worker")
	bargs := []string{"build"}
	if mf := os.Getenv("VERIF_MODFILE"); mf != "" {
		bargs = append(bargs, "-modfile="+mf) // VERIF_REPO: build against the alternate copy of goa (see run.sh)
	}
	build := exec.Command("go", append(bargs, "-tags", "verif c12table", "-o", h.bin, "./"+filepath.ToSlash(rel)+"/worker")...)
	build.Dir = root
	build.Env = h.env
	if out, err := build.CombinedOutput(); err != nil {
		c.HarnessError("worker does not build against %s: %v\n%s", core.RepoDir(), err, out)
		return nil
	}
	if out, err := h.cmd("-mode", "selftest").CombinedOutput(); err != nil {
		c.HarnessError("worker self-test failed (scaffolds must be valid designs, state must be fresh per program): %v\n%s", err, out)
		return nil
	}
	out, err := h.cmd("-mode", "info").Output()
	if err != nil || json.Unmarshal(out, &h.info) != nil {
		c.HarnessError("worker info: %v", err)
		return nil
	}
	if len(h.info.Functions) != len(names) {
		c.HarnessError("function table has %d entries, parsed %d names", len(h.info.Functions), len(names))
		return nil
	}
	return h
}

// cleanup removes the per-process work directory.
func (h *harness) cleanup() {
	if h != nil && os.Getenv("C12_KEEP_WORK") == "" {
		_ = os.RemoveAll(h.workDir)
	}
}

func (h *harness) cmd(args ...string) *exec.Cmd {
	cmd := exec.Command(h.bin, append([]string{"-menus", h.menus}, args...)...)
	cmd.Dir = h.workDir
	cmd.Env = h.env
	return cmd
}

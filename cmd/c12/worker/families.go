package main

import (
	"encoding/json"
	"fmt"
	"os"
	"strings"
)

// A family is a deterministic, indexed set of programs cut into blocks. Block b holds programs
// 0..N-1; program (b, j) has the canonical state key Key+"/"+j. The driver schedules
// (block, from, to) jobs over the worker processes.
type block struct {
	Key string `json:"key"`
	N   int    `json:"n"`
	at  func(j int) *Program
}

// Selection is computed by the driver from the depth-1 results and handed to the deeper
// families: for every context the argument vectors (indices into the function's vector space)
// each function contributes.
type Selection struct {
	// D2[ctx][fn] = vector indices used for pairs
	D2 map[string]map[string][]int `json:"d2"`
	// D3[ctx][fn] = vector indices used for triples and as companions of dangling references
	// (only functions that goa accepts in that context)
	D3 map[string]map[string][]int `json:"d3"`
	// T3[ctx][fn] = vector indices used for triples (thorough tier)
	T3 map[string]map[string][]int `json:"t3"`
}

func loadSelection(path string) *Selection {
	var s Selection
	b, err := os.ReadFile(path)
	if err != nil {
		fatalf("selection: %v", err)
	}
	if err := json.Unmarshal(b, &s); err != nil {
		fatalf("selection: %v", err)
	}
	return &s
}

type pick struct {
	fn string
	v  int
}

func flatten(m map[string][]int) []pick {
	var out []pick
	for _, fn := range fnOrder {
		for _, v := range m[fn] {
			out = append(out, pick{fn, v})
		}
	}
	return out
}

func (p pick) call() Call { return funcs[p.fn].vector(p.v) }

func ipow(a, b int) int {
	r := 1
	for i := 0; i < b; i++ {
		r *= a
	}
	return r
}

// depth 1: context x function x complete product of the argument menus
func familyD1() []block {
	var out []block
	for _, ctx := range contextOrder {
		for _, fn := range fnOrder {
			ctx, fi := ctx, funcs[fn]
			out = append(out, block{Key: "d1/" + ctx + "/" + fn, N: fi.n, at: func(j int) *Program {
				return &Program{Ctx: ctx, Hole: []Call{fi.vector(j)}}
			}})
		}
	}
	return out
}

// sequences of k calls in one context: first call from sel[ctx][f], the others range over the
// flattened selection of the context (every ordered tuple, repetitions included)
func familySeq(tag string, sel map[string]map[string][]int, ctxs []string, k int) []block {
	var out []block
	for _, ctx := range ctxs {
		m := sel[ctx]
		if len(m) == 0 {
			continue
		}
		flat := flatten(m)
		t := len(flat)
		for _, fn := range fnOrder {
			vs := m[fn]
			if len(vs) == 0 {
				continue
			}
			ctx, fn, vs := ctx, fn, vs
			rest := ipow(t, k-1)
			out = append(out, block{Key: tag + "/" + ctx + "/" + fn, N: len(vs) * rest, at: func(j int) *Program {
				calls := make([]Call, k)
				calls[0] = funcs[fn].vector(vs[j/rest])
				r := j % rest
				for i := k - 1; i >= 1; i-- {
					calls[i] = flat[r%t].call()
					r /= t
				}
				return &Program{Ctx: ctx, Hole: calls}
			}})
		}
	}
	return out
}

// ---- dangling-reference family ----

const zz = "zzq" // the name no program ever defines

type danglingTemplate struct {
	id   string // kind of reference
	ctx  string
	call Call   // the call that holds the dangling name
	pre  []Call // sibling calls placed before / after it in the hole: valid entries of the
	post []Call // same list (other headers, other view attributes, ...)
	// strict: acceptance alone is a violation even with companion calls around, because
	// nothing a sibling call can do removes the reference (the construct appends to a list:
	// requirements, required names, headers, params, view attributes, routes, error responses).
	// Templates whose construct a later sibling can replace (Body, MapParams, Tag, Message,
	// Metadata, Trailers, gRPC Headers, Result, a redefined attribute, the selected view) are strict only when
	// they are alone; with companions the accepted design must still mention the name.
	strict bool
}

func (t danglingTemplate) hole() []Call {
	out := append([]Call{}, t.pre...)
	out = append(out, t.call)
	return append(out, t.post...)
}

// nameLists: the dangling name in every position among otherwise valid names.
func nameLists(valid ...string) [][]string {
	a, b := valid[0], valid[1]
	return [][]string{{zz, a}, {a, zz}, {a, zz, b}, {a, b, zz}, {zz, a, b}}
}

func strArgs(names []string) []Arg {
	out := make([]Arg, len(names))
	for i, n := range names {
		out[i] = S(n)
	}
	return out
}

func danglingTemplates() []danglingTemplate {
	fz := func(calls ...Call) Arg { return F(calls...) }
	az := C("Attribute", S(zz))
	one := func(id, ctx string, c Call) danglingTemplate { return danglingTemplate{id: id, ctx: ctx, call: c} }
	t := []danglingTemplate{
		// requirements
		one("required-attribute", "type", C("Required", S(zz))),
		one("required-attribute", "payload", C("Required", S(zz))),
		one("required-attribute", "result", C("Required", S(zz))),
		one("required-attribute", "rt-attributes", C("Required", S(zz))),
		one("required-attribute", "resulttype", C("Required", S(zz))),
		one("required-attribute", "http-headers", C("Required", S(zz))),
		one("required-attribute", "http-params", C("Required", S(zz))),
		one("required-attribute", "http-body", C("Required", S(zz))),
		one("required-attribute", "grpc-message", C("Required", S(zz))),
		one("required-attribute", "grpc-metadata", C("Required", S(zz))),
		// HTTP request mappings (payload is an object without zz)
		one("http-request-header", "http-endpoint", C("Header", S(zz))),
		one("http-request-param", "http-endpoint", C("Param", S(zz))),
		one("http-request-cookie", "http-endpoint", C("Cookie", S(zz))),
		one("http-request-body-attribute", "http-endpoint", C("Body", S(zz))),
		one("http-request-body-field", "http-endpoint", C("Body", fz(az))),
		one("http-route-param", "http-endpoint", C("GET", S("/r/{"+zz+"}"))),
		one("http-map-params", "http-endpoint", C("MapParams", S(zz))),
		one("http-request-header", "http-endpoint", C("Headers", fz(C("Header", S(zz))))),
		one("http-request-param", "http-endpoint", C("Params", fz(C("Param", S(zz))))),
		one("http-request-header", "http-headers", C("Header", S(zz))),
		one("http-request-param", "http-params", C("Param", S(zz))),
		one("http-request-body-field", "http-body", az),
		// HTTP response mappings (result RT has attributes a, b only)
		one("http-response-header", "http-response", C("Header", S(zz))),
		one("http-response-cookie", "http-response", C("Cookie", S(zz))),
		one("http-response-body-attribute", "http-response", C("Body", S(zz))),
		one("http-response-body-field", "http-response", C("Body", fz(az))),
		one("http-response-tag", "http-response", C("Tag", S(zz), S("v"))),
		one("http-response-header", "http-response", C("Headers", fz(C("Header", S(zz))))),
		one("http-response-header", "http-endpoint", C("Response", I(200), fz(C("Header", S(zz))))),
		one("http-response-body-attribute", "http-endpoint", C("Response", I(200), fz(C("Body", S(zz))))),
		// HTTP error responses (error a has the built-in error type)
		one("http-error-response-header", "http-error-response", C("Header", S(zz))),
		one("http-error-response-body-attribute", "http-error-response", C("Body", S(zz))),
		one("http-error-response-undefined-error", "http-endpoint", C("Response", S(zz), I(400))),
		one("http-error-response-undefined-error", "service-http", C("Response", S(zz), I(400))),
		one("http-error-response-undefined-error", "api-http", C("Response", S(zz), I(400))),
		// security requirements
		one("security-scheme", "method", C("Security", S(zz))),
		one("security-scheme", "method+http", C("Security", S(zz))),
		one("security-scheme", "service", C("Security", S(zz))),
		one("security-scheme", "api", C("Security", S(zz))),
		// views
		one("view-attribute", "view", az),
		one("view-attribute", "resulttype", C("View", S("v2"), fz(az))),
		one("attribute-view", "attr-rt", C("View", S(zz))),
		one("result-view", "method+http", C("Result", UT("RT"), fz(C("View", S(zz))))),
		one("attribute-view", "type", C("Attribute", S("f"), UT("RT"), fz(C("View", S(zz))))),
		one("collection-view", "type", C("Attribute", S("f"), CallArg(C("CollectionOf", UT("RT"), fz(C("View", S(zz))))))),
		// gRPC mappings
		one("grpc-request-metadata", "grpc-endpoint", C("Metadata", fz(az))),
		one("grpc-request-message", "grpc-endpoint", C("Message", fz(az))),
		one("grpc-request-metadata", "grpc-metadata", az),
		one("grpc-request-message", "grpc-message", az),
		one("grpc-response-header", "grpc-response", C("Headers", fz(az))),
		one("grpc-response-trailer", "grpc-response", C("Trailers", fz(az))),
		one("grpc-response-message", "grpc-response", C("Message", fz(az))),
		one("grpc-response-header", "grpc-endpoint", C("Response", I(0), fz(C("Headers", fz(az))))),
		one("grpc-error-response-undefined-error", "grpc-endpoint", C("Response", S(zz), I(5))),
		one("grpc-error-response-undefined-error", "service-grpc", C("Response", S(zz), I(5))),
		one("grpc-error-response-undefined-error", "api-grpc", C("Response", S(zz), I(5))),
	}

	// ---- the dangling name in every position of a list of otherwise valid names ----

	// Security(name, name, ...): schemes a (basic) and k (API key) exist in the +auth contexts
	// (whose method payload carries the credentials both schemes need); in the other contexts
	// only a exists, the valid entries are then a twice.
	for _, ctx := range []string{"method+auth", "service+auth", "api+auth"} {
		t = append(t, one("security-scheme", ctx, C("Security", S(zz))))
		for _, names := range nameLists("a", "k") {
			t = append(t, one("security-scheme-in-list", ctx, C("Security", strArgs(names)...)))
		}
		// an existing scheme given by value, then the dangling name; and with a trailing DSL
		t = append(t, one("security-scheme-in-list", ctx, C("Security", Arg{K: "scheme", S: "a"}, S(zz))))
		t = append(t, one("security-scheme-in-list", ctx, C("Security", S("a"), S(zz), F())))
	}
	for _, ctx := range []string{"method", "method+http", "service", "api"} {
		for _, names := range [][]string{{zz, "a"}, {"a", zz}, {"a", zz, "a"}} {
			t = append(t, one("security-scheme-in-list", ctx, C("Security", strArgs(names)...)))
		}
	}
	// Required(name, name, ...): attributes a and b exist
	for _, ctx := range []string{"type", "payload", "result", "rt-attributes", "resulttype"} {
		for _, names := range nameLists("a", "b") {
			t = append(t, one("required-attribute-in-list", ctx, C("Required", strArgs(names)...)))
		}
	}
	for _, names := range nameLists("a", "b") {
		t = append(t,
			danglingTemplate{id: "required-attribute-in-list", ctx: "http-headers", call: C("Required", strArgs(names)...),
				pre: []Call{C("Header", S("a")), C("Header", S("b"))}},
			danglingTemplate{id: "required-attribute-in-list", ctx: "http-params", call: C("Required", strArgs(names)...),
				pre: []Call{C("Param", S("a")), C("Param", S("b"))}},
			danglingTemplate{id: "required-attribute-in-list", ctx: "grpc-message", call: C("Required", strArgs(names)...),
				pre: []Call{C("Attribute", S("b"))}},
			danglingTemplate{id: "required-attribute-in-list", ctx: "grpc-metadata", call: C("Required", strArgs(names)...),
				pre: []Call{C("Attribute", S("b"))}},
		)
	}
	// lists made of one call per entry: the dangling entry first, in the middle, last
	type listCtx struct {
		id, ctx, fn string
		a, b        Call // valid entries
	}
	ent := func(fn, name string) Call { return C(fn, S(name)) }
	for _, l := range []listCtx{
		{"http-request-header", "http-endpoint", "Header", ent("Header", "a"), ent("Header", "b")},
		{"http-request-param", "http-endpoint", "Param", ent("Param", "a"), ent("Param", "b")},
		{"http-request-cookie", "http-endpoint", "Cookie", ent("Cookie", "a"), ent("Cookie", "b")},
		{"http-request-header", "http-headers", "Header", ent("Header", "a"), ent("Header", "b")},
		{"http-request-param", "http-params", "Param", ent("Param", "a"), ent("Param", "b")},
		{"http-request-body-field", "http-body", "Attribute", ent("Attribute", "b"), ent("Attribute", "b")},
		{"http-response-header", "http-response", "Header", ent("Header", "a"), ent("Header", "b")},
		{"http-response-cookie", "http-response", "Cookie", ent("Cookie", "a"), ent("Cookie", "b")},
		{"view-attribute", "view", "Attribute", ent("Attribute", "b"), ent("Attribute", "b")},
		{"grpc-request-message", "grpc-message", "Attribute", ent("Attribute", "b"), ent("Attribute", "b")},
		{"grpc-request-metadata", "grpc-metadata", "Attribute", ent("Attribute", "b"), ent("Attribute", "b")},
	} {
		d := ent(l.fn, zz)
		t = append(t,
			danglingTemplate{id: l.id + "-in-list", ctx: l.ctx, call: d, post: []Call{l.a}},
			danglingTemplate{id: l.id + "-in-list", ctx: l.ctx, call: d, pre: []Call{l.a}},
			danglingTemplate{id: l.id + "-in-list", ctx: l.ctx, call: d, pre: []Call{l.a}, post: []Call{l.b}},
		)
	}
	// lists inside the body of one call
	type bodyCtx struct {
		id, ctx string
		mk      func(body ...Call) Call
		entry   string // function of the entries
	}
	for _, l := range []bodyCtx{
		{"http-request-header", "http-endpoint", func(b ...Call) Call { return C("Headers", F(b...)) }, "Header"},
		{"http-request-param", "http-endpoint", func(b ...Call) Call { return C("Params", F(b...)) }, "Param"},
		{"http-request-body-field", "http-endpoint", func(b ...Call) Call { return C("Body", F(b...)) }, "Attribute"},
		{"http-response-header", "http-endpoint", func(b ...Call) Call { return C("Response", I(200), F(b...)) }, "Header"},
		{"http-response-body-field", "http-response", func(b ...Call) Call { return C("Body", F(b...)) }, "Attribute"},
		{"view-attribute", "resulttype", func(b ...Call) Call { return C("View", S("v2"), F(b...)) }, "Attribute"},
		{"grpc-request-metadata", "grpc-endpoint", func(b ...Call) Call { return C("Metadata", F(b...)) }, "Attribute"},
		{"grpc-request-message", "grpc-endpoint", func(b ...Call) Call { return C("Message", F(b...)) }, "Attribute"},
		{"grpc-response-header", "grpc-response", func(b ...Call) Call { return C("Headers", F(b...)) }, "Attribute"},
		{"grpc-response-trailer", "grpc-response", func(b ...Call) Call { return C("Trailers", F(b...)) }, "Attribute"},
		{"grpc-response-message", "grpc-response", func(b ...Call) Call { return C("Message", F(b...)) }, "Attribute"},
	} {
		a, b, d := ent(l.entry, "a"), ent(l.entry, "b"), ent(l.entry, zz)
		for _, body := range [][]Call{{d, a}, {a, d}, {a, d, b}} {
			t = append(t, one(l.id+"-in-list", l.ctx, l.mk(body...)))
		}
	}

	replaceable := map[string]bool{"Body": true, "MapParams": true, "Tag": true, "Message": true, "Metadata": true,
		"Trailers": true, "Result": true}
	for i := range t {
		fn := t[i].call.Fn
		switch {
		case replaceable[fn]:
		case fn == "Headers" && t[i].ctx == "grpc-response":
		case fn == "Attribute" && t[i].ctx == "type": // attribute f can be redefined by a sibling
		case fn == "View" && len(t[i].call.Args) == 1: // View(name) selects THE view: a later View(other) replaces the selection
		default:
			t[i].strict = true
		}
	}
	return t
}

// companionCtx: contexts that exist only for the dangling family borrow the companion calls
// of the enumerated context they extend.
var companionCtx = map[string]string{"method+auth": "method+http", "service+auth": "service", "api+auth": "api"}

// danglingInstance is one template placed in one scaffold (the base context of the template or
// a variant of it).
type danglingInstance struct {
	idx int // index of the template (state keys)
	tpl danglingTemplate
	ctx string
	// dangling: the dangling-reference clause of the oracle applies (false when the type the
	// template refers into has no attributes in this variant: only the crash / located-error
	// clauses apply then)
	dangling bool
}

// controlNames are the existing names that replace the dangling name in the control programs of
// level 1 (the {existing, dangling} dimension): attributes a and b; view a; scheme a; error a.
func controlNames(id string) []string {
	switch templateDim(id, "") {
	case "v", "":
		return []string{"a"}
	}
	return []string{"a", "b"}
}

func renameInCalls(calls []Call, f func(a *Arg)) []Call {
	out := make([]Call, len(calls))
	for i, c := range calls {
		out[i] = Call{Fn: c.Fn, Args: make([]Arg, len(c.Args))}
		for j, a := range c.Args {
			if a.Body != nil {
				a.Body = renameInCalls(a.Body, f)
			}
			if a.Call != nil {
				cc := renameInCalls([]Call{*a.Call}, f)[0]
				a.Call = &cc
			}
			f(&a)
			out[i].Args[j] = a
		}
	}
	return out
}

// withName replaces the dangling name by an existing one (control programs).
func withName(calls []Call, name string) []Call {
	return renameInCalls(calls, func(a *Arg) {
		if a.K == "s" {
			a.S = strings.ReplaceAll(a.S, zz, name)
		}
	})
}

// danglingBlocks: level 1 = every instance alone (program 0), followed by its control programs
// (the dangling name replaced by each existing name; general oracle only); level 2 = with one
// companion call before or after it; level 3 = with two companion calls in every relative
// position. Companions are the calls goa accepts in the base context (sel.D3); none of them can
// define the name because no menu contains that name.
func danglingBlocks(tag string, insts []danglingInstance, sel *Selection, level int) []block {
	var out []block
	for _, in := range insts {
		in := in
		tpl := in.tpl
		key := fmt.Sprintf("%s%d/%03d/%s/%s/%s", tag, level, in.idx, in.ctx, tpl.id, describe(tpl.hole()))
		dangling := ""
		if in.dangling {
			dangling = tpl.id
		}
		if level == 1 {
			ctl := controlNames(tpl.id)
			out = append(out, block{Key: key, N: 1 + len(ctl), at: func(j int) *Program {
				if j == 0 {
					return &Program{Ctx: in.ctx, Hole: tpl.hole(), Dangling: dangling, Strict: in.dangling}
				}
				return &Program{Ctx: in.ctx, Hole: withName(tpl.hole(), ctl[j-1])}
			}})
			continue
		}
		if sel == nil {
			continue
		}
		cctx, _ := splitVariant(in.ctx)
		if c, ok := companionCtx[cctx]; ok {
			cctx = c
		}
		flat := flatten(sel.D3[cctx])
		t := len(flat)
		if t == 0 {
			continue
		}
		k := level - 1 // companions
		n := ipow(t, k) * level
		out = append(out, block{Key: key, N: n, at: func(j int) *Program {
			pos := j % level // position of the template among the level groups
			r := j / level
			comp := make([]Call, k)
			for i := k - 1; i >= 0; i-- {
				comp[i] = flat[r%t].call()
				r /= t
			}
			calls := make([]Call, 0, level+len(tpl.pre)+len(tpl.post))
			calls = append(calls, comp[:pos]...)
			calls = append(calls, tpl.hole()...)
			calls = append(calls, comp[pos:]...)
			return &Program{Ctx: in.ctx, Hole: calls, Dangling: dangling, Strict: tpl.strict && in.dangling}
		}})
	}
	return out
}

// familyDangling: the templates in their base contexts.
func familyDangling(sel *Selection, level int) []block {
	var insts []danglingInstance
	for ti, tpl := range danglingTemplates() {
		insts = append(insts, danglingInstance{ti, tpl, tpl.ctx, true})
	}
	return danglingBlocks("dangling", insts, sel, level)
}

// toViewedType rewrites a template that selects a view of the prelude result type RT so that it
// selects a view of VRT, the type the v dimension of a variant defines.
func toViewedType(t danglingTemplate) danglingTemplate {
	f := func(a *Arg) {
		if a.K == "ut" && a.S == "RT" {
			a.S = "VRT"
		}
	}
	t.call = renameInCalls([]Call{t.call}, f)[0]
	t.pre, t.post = renameInCalls(t.pre, f), renameInCalls(t.post, f)
	return t
}

// kindInstances places every template in the variants of its context (see variantsOf for the
// plans): the kind of the type the template refers into x the kinds of the other types of the
// scaffold. objectOnly keeps the variants in which the dangling-reference clause applies.
func kindInstances(plan string, objectOnly bool) []danglingInstance {
	var out []danglingInstance
	for ti, tpl := range danglingTemplates() {
		dim := templateDim(tpl.id, tpl.ctx)
		if dim == "v" {
			tpl = toViewedType(tpl)
		}
		for _, v := range variantsOf(tpl.ctx, dim, plan) {
			dangling := true
			if dim != "" {
				_, k, _ := parseVariant(v)
				dangling = kindIsObject(dim, k[dim])
			}
			if objectOnly && !dangling {
				continue
			}
			out = append(out, danglingInstance{ti, tpl, v, dangling})
		}
	}
	return out
}

// familyKind: the dangling templates x the kind of the type referred into.
//
//	level 1: quick = reduced product of kinds, thorough = full product
//	level 2: quick = one dimension at a time,  thorough = reduced product
//	level 3: (thorough) one dimension at a time, object-like kinds
func familyKind(sel *Selection, level int) []block {
	plans := map[int]string{1: "full", 2: "reduced", 3: "one"}
	if quickMenus {
		plans = map[int]string{1: "reduced", 2: "one", 3: "one"}
	}
	return danglingBlocks("dkind", kindInstances(plans[level], level == 3), sel, level)
}

// ---- recursive type family ----

// recBodies are the calls a recursive type definition is assembled from; self is the name of
// the type being defined and other the name of the second type (== self at level 1).
func recBodies(self, other string, isRT bool) []Call {
	arr := func(n string) Arg { return CallArg(C("ArrayOf", S(n))) }
	b := []Call{
		C("Attribute", S("f"), S(other)),
		C("Attribute", S("g"), arr(other)),
		C("Attribute", S("h"), CallArg(C("MapOf", DT("String"), S(other)))),
		C("Attribute", S("k"), CallArg(C("MapOf", S(other), DT("String")))),
		C("Attribute", S("f"), S(other), F(C("Required", S("f")))),
		C("Attribute", S("p"), UT(other)),
		C("Attribute", S("q"), CallArg(C("ArrayOf", UT(other)))),
		C("Extend", UT(other)),
		C("Reference", UT(other)),
		C("OneOf", S("u"), F(C("Attribute", S("f"), S(other)), C("Attribute", S("s"), DT("String")))),
		C("Required", S("f")),
		C("Attribute", S("f"), S(other), F(C("Default", S(other)))),
		C("Attribute", S("f"), S(other), F(C("Example", S("e")))),
		C("Field", I(1), S("f"), S(other)),
		C("Field", I(2), S("g"), arr(other)),
	}
	if isRT {
		b = append(b,
			C("Attribute", S("c"), CallArg(C("CollectionOf", UT(other)))),
			C("Attribute", S("f"), S(other), F(C("View", S("default")))),
			C("View", S("default"), F(C("Attribute", S("f")))),
			C("View", S("default"), F(C("Attribute", S("f"), F(C("View", S("default")))))),
			C("View", S("tiny"), F(C("Attribute", S("f")))),
		)
	}
	return b
}

type recUsage struct {
	name string
	mk   func(t string) Call
}

var recUsages = []recUsage{
	{"unused", nil},
	{"http", func(t string) Call {
		return C("Service", S("s"), F(C("Method", S("m"), F(C("Payload", UT(t)), C("Result", UT(t)), C("HTTP", F(C("POST", S("/"))))))))
	}},
	{"grpc", func(t string) Call {
		return C("Service", S("s"), F(C("Method", S("m"), F(C("Payload", UT(t)), C("Result", UT(t)), C("GRPC", F())))))
	}},
	{"error", func(t string) Call {
		return C("Service", S("s"), F(C("Error", S("e"), UT(t)), C("Method", S("m"), F(C("Result", CallArg(C("ArrayOf", UT(t)))), C("HTTP", F(C("GET", S("/")), C("Response", S("e"), I(400))))))))
	}},
}

func defType(name string, isRT bool, body []Call) Call {
	if isRT {
		return C("ResultType", S("application/vnd."+name), S(name), F(body...))
	}
	return C("Type", S(name), F(body...))
}

// bodiesUpTo2 enumerates every body made of one or two calls from the alphabet.
func bodiesUpTo2(alpha []Call) [][]Call {
	var out [][]Call
	for _, a := range alpha {
		out = append(out, []Call{a})
	}
	for _, a := range alpha {
		for _, b := range alpha {
			out = append(out, []Call{a, b})
		}
	}
	return out
}

// familyRec level 1: one self-recursive type (user type or result type), bodies of 1..2 calls,
// every usage. Level 2: two mutually recursive types r1, r2 (each user type or result type),
// bodies of one call referring to the other type plus optionally one call referring to
// itself, every usage of r1.
func familyRec(level int) []block {
	var out []block
	for _, rt1 := range []bool{false, true} {
		if level == 1 {
			bodies := bodiesUpTo2(recBodies("r1", "r1", rt1))
			for _, u := range recUsages {
				rt1, u := rt1, u
				out = append(out, block{Key: fmt.Sprintf("rec1/rt=%v/%s", rt1, u.name), N: len(bodies), at: func(j int) *Program {
					top := []Call{defType("r1", rt1, bodies[j])}
					if u.mk != nil {
						top = append(top, u.mk("r1"))
					}
					return &Program{Top: top}
				}})
			}
			continue
		}
		for _, rt2 := range []bool{false, true} {
			// r1 refers to r2 (one call) and optionally to itself; same for r2
			var b1, b2 [][]Call
			for _, a := range recBodies("r1", "r2", rt1) {
				b1 = append(b1, []Call{a})
				for _, s := range recBodies("r1", "r1", rt1)[:8] {
					b1 = append(b1, []Call{a, s})
				}
			}
			for _, a := range recBodies("r2", "r1", rt2) {
				b2 = append(b2, []Call{a})
			}
			for _, u := range recUsages {
				rt1, rt2, u := rt1, rt2, u
				out = append(out, block{Key: fmt.Sprintf("rec2/rt=%v,%v/%s", rt1, rt2, u.name), N: len(b1) * len(b2), at: func(j int) *Program {
					top := []Call{defType("r1", rt1, b1[j/len(b2)]), defType("r2", rt2, b2[j%len(b2)])}
					if u.mk != nil {
						top = append(top, u.mk("r1"))
					}
					return &Program{Top: top}
				}})
			}
		}
	}
	return out
}

// ---- recursive types reached through Extend / Reference ----

// bodyAttrName is the attribute a recursive body call defines ("" if none).
func bodyAttrName(c Call) string {
	switch c.Fn {
	case "Attribute", "OneOf":
		return c.Args[0].S
	case "Field":
		return c.Args[1].S
	}
	return ""
}

type recPlace struct {
	name string
	mk   func(body []Call) []Call // top-level calls that put body (link + attributes) somewhere
}

var recPlaces = []recPlace{
	{"type", func(body []Call) []Call {
		return []Call{C("Type", S("r3"), F(body...)),
			C("Service", S("s"), F(C("Method", S("m"), F(C("Payload", UT("r3")), C("Result", UT("r3")), C("HTTP", F(C("POST", S("/"))))))))}
	}},
	{"payload", func(body []Call) []Call {
		return []Call{C("Service", S("s"), F(C("Method", S("m"), F(C("Payload", F(body...)), C("HTTP", F(C("POST", S("/"))))))))}
	}},
	{"result", func(body []Call) []Call {
		return []Call{C("Service", S("s"), F(C("Method", S("m"), F(C("Result", F(body...)), C("HTTP", F(C("GET", S("/"))))))))}
	}},
}

// familyRecRef: a self-recursive (level 1) or mutually recursive (level 2) type r1 is extended
// or referenced (directly, or through a type rb that has an attribute c of type r1) from a
// second type, a method payload or a method result, which re-declares the recursive
// attribute under the same name: not at all, without a type (it inherits), with the type, or
// without a type next to an unrelated attribute.
func familyRecRef(level int) []block {
	var out []block
	for _, rt1 := range []bool{false, true} {
		type def struct{ top []Call }
		var defs []def
		var names []string
		if level == 1 {
			for _, b := range recBodies("r1", "r1", rt1) {
				defs = append(defs, def{[]Call{defType("r1", rt1, []Call{b})}})
				names = append(names, bodyAttrName(b))
			}
		} else {
			for _, b1 := range recBodies("r1", "r2", rt1) {
				for _, b2 := range recBodies("r2", "r1", false) {
					defs = append(defs, def{[]Call{defType("r1", rt1, []Call{b1}), defType("r2", false, []Call{b2})}})
					names = append(names, bodyAttrName(b1))
				}
			}
		}
		for _, link := range []string{"Reference", "Extend"} {
			for _, indirect := range []bool{false, true} {
				for _, place := range recPlaces {
					rt1, link, indirect, place := rt1, link, indirect, place
					key := fmt.Sprintf("recref%d/rt=%v/%s/indirect=%v/%s", level, rt1, link, indirect, place.name)
					const nattr = 4
					out = append(out, block{Key: key, N: len(defs) * nattr, at: func(j int) *Program {
						d, variant := defs[j/nattr], j%nattr
						top := append([]Call{}, d.top...)
						target, name := "r1", names[j/nattr]
						if indirect {
							top = append(top, C("Type", S("rb"), F(C("Attribute", S("c"), UT("r1")), C("Attribute", S("n"), DT("String")))))
							target, name = "rb", "c"
						}
						if name == "" {
							name = "f"
						}
						body := []Call{C(link, UT(target))}
						switch variant {
						case 1:
							body = append(body, C("Attribute", S(name)))
						case 2:
							body = append(body, C("Attribute", S(name), UT("r1")))
						case 3:
							body = append(body, C("Attribute", S(name)), C("Attribute", S("z"), DT("String")))
						}
						return &Program{Top: append(top, place.mk(body)...)}
					}})
				}
			}
		}
	}
	return out
}

func familyByName(name string, sel *Selection) []block {
	switch name {
	case "d1":
		return familyD1()
	case "d2":
		return familySeq("d2", sel.D2, contextOrder, 2)
	case "d3":
		return familySeq("d3", sel.T3, contextOrder, 3)
	case "dangling1":
		return familyDangling(sel, 1)
	case "dangling2":
		return familyDangling(sel, 2)
	case "dangling3":
		return familyDangling(sel, 3)
	case "dkind1":
		return familyKind(sel, 1)
	case "dkind2":
		return familyKind(sel, 2)
	case "dkind3":
		return familyKind(sel, 3)
	case "cred":
		return familyCred()
	case "rec1":
		return familyRec(1)
	case "rec2":
		return familyRec(2)
	case "recref1":
		return familyRecRef(1)
	case "recref2":
		return familyRecRef(2)
	}
	fatalf("unknown family %q", name)
	return nil
}

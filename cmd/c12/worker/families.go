package main

import (
	"encoding/json"
	"fmt"
	"os"
)

// A family is a deterministic, indexed set of programs cut into blocks. Block b holds programs
// 0..N-1; program (b, j) has the canonical state key Key+"/"+j. The driver schedules
// (block, from, to) jobs over the worker processes.
type block struct {
	Key string `json:"key"`
	N   int    `json:"n"`
	at  func(j int) *Program
}

// Selection is computed by the driver from the depth-1 results and handed to the deeper
// families: for every context the argument vectors (indices into the function's vector space)
// each function contributes.
type Selection struct {
	// D2[ctx][fn] = vector indices used for pairs
	D2 map[string]map[string][]int `json:"d2"`
	// D3[ctx][fn] = vector indices used for triples and as companions of dangling references
	// (only functions that goa accepts in that context)
	D3 map[string]map[string][]int `json:"d3"`
	// T3[ctx][fn] = vector indices used for triples (thorough tier)
	T3 map[string]map[string][]int `json:"t3"`
}

func loadSelection(path string) *Selection {
	var s Selection
	b, err := os.ReadFile(path)
	if err != nil {
		fatalf("selection: %v", err)
	}
	if err := json.Unmarshal(b, &s); err != nil {
		fatalf("selection: %v", err)
	}
	return &s
}

type pick struct {
	fn string
	v  int
}

func flatten(m map[string][]int) []pick {
	var out []pick
	for _, fn := range fnOrder {
		for _, v := range m[fn] {
			out = append(out, pick{fn, v})
		}
	}
	return out
}

func (p pick) call() Call { return funcs[p.fn].vector(p.v) }

func ipow(a, b int) int {
	r := 1
	for i := 0; i < b; i++ {
		r *= a
	}
	return r
}

// depth 1: context x function x complete product of the argument menus
func familyD1() []block {
	var out []block
	for _, ctx := range contextOrder {
		for _, fn := range fnOrder {
			ctx, fi := ctx, funcs[fn]
			out = append(out, block{Key: "d1/" + ctx + "/" + fn, N: fi.n, at: func(j int) *Program {
				return &Program{Ctx: ctx, Hole: []Call{fi.vector(j)}}
			}})
		}
	}
	return out
}

// sequences of k calls in one context: first call from sel[ctx][f], the others range over the
// flattened selection of the context (every ordered tuple, repetitions included)
func familySeq(tag string, sel map[string]map[string][]int, ctxs []string, k int) []block {
	var out []block
	for _, ctx := range ctxs {
		m := sel[ctx]
		if len(m) == 0 {
			continue
		}
		flat := flatten(m)
		t := len(flat)
		for _, fn := range fnOrder {
			vs := m[fn]
			if len(vs) == 0 {
				continue
			}
			ctx, fn, vs := ctx, fn, vs
			rest := ipow(t, k-1)
			out = append(out, block{Key: tag + "/" + ctx + "/" + fn, N: len(vs) * rest, at: func(j int) *Program {
				calls := make([]Call, k)
				calls[0] = funcs[fn].vector(vs[j/rest])
				r := j % rest
				for i := k - 1; i >= 1; i-- {
					calls[i] = flat[r%t].call()
					r /= t
				}
				return &Program{Ctx: ctx, Hole: calls}
			}})
		}
	}
	return out
}

// ---- dangling-reference family ----

const zz = "zzq" // the name no program ever defines

type danglingTemplate struct {
	id   string // kind of reference
	ctx  string
	call Call
}

func danglingTemplates() []danglingTemplate {
	fz := func(calls ...Call) Arg { return F(calls...) }
	az := C("Attribute", S(zz))
	t := []danglingTemplate{
		// requirements
		{"required-attribute", "type", C("Required", S(zz))},
		{"required-attribute", "payload", C("Required", S(zz))},
		{"required-attribute", "result", C("Required", S(zz))},
		{"required-attribute", "rt-attributes", C("Required", S(zz))},
		{"required-attribute", "resulttype", C("Required", S(zz))},
		{"required-attribute", "http-headers", C("Required", S(zz))},
		{"required-attribute", "http-params", C("Required", S(zz))},
		{"required-attribute", "http-body", C("Required", S(zz))},
		{"required-attribute", "grpc-message", C("Required", S(zz))},
		{"required-attribute", "grpc-metadata", C("Required", S(zz))},
		// HTTP request mappings (payload is an object without zz)
		{"http-request-header", "http-endpoint", C("Header", S(zz))},
		{"http-request-param", "http-endpoint", C("Param", S(zz))},
		{"http-request-cookie", "http-endpoint", C("Cookie", S(zz))},
		{"http-request-body-attribute", "http-endpoint", C("Body", S(zz))},
		{"http-request-body-field", "http-endpoint", C("Body", fz(az))},
		{"http-route-param", "http-endpoint", C("GET", S("/r/{"+zz+"}"))},
		{"http-map-params", "http-endpoint", C("MapParams", S(zz))},
		{"http-request-header", "http-endpoint", C("Headers", fz(C("Header", S(zz))))},
		{"http-request-param", "http-endpoint", C("Params", fz(C("Param", S(zz))))},
		{"http-request-header", "http-headers", C("Header", S(zz))},
		{"http-request-param", "http-params", C("Param", S(zz))},
		{"http-request-body-field", "http-body", az},
		// HTTP response mappings (result RT has attributes a, b only)
		{"http-response-header", "http-response", C("Header", S(zz))},
		{"http-response-cookie", "http-response", C("Cookie", S(zz))},
		{"http-response-body-attribute", "http-response", C("Body", S(zz))},
		{"http-response-body-field", "http-response", C("Body", fz(az))},
		{"http-response-tag", "http-response", C("Tag", S(zz), S("v"))},
		{"http-response-header", "http-response", C("Headers", fz(C("Header", S(zz))))},
		{"http-response-header", "http-endpoint", C("Response", I(200), fz(C("Header", S(zz))))},
		{"http-response-body-attribute", "http-endpoint", C("Response", I(200), fz(C("Body", S(zz))))},
		// HTTP error responses (error a has the built-in error type)
		{"http-error-response-header", "http-error-response", C("Header", S(zz))},
		{"http-error-response-body-attribute", "http-error-response", C("Body", S(zz))},
		{"http-error-response-undefined-error", "http-endpoint", C("Response", S(zz), I(400))},
		{"http-error-response-undefined-error", "service-http", C("Response", S(zz), I(400))},
		{"http-error-response-undefined-error", "api-http", C("Response", S(zz), I(400))},
		// security requirements
		{"security-scheme", "method", C("Security", S(zz))},
		{"security-scheme", "method+http", C("Security", S(zz))},
		{"security-scheme", "service", C("Security", S(zz))},
		{"security-scheme", "api", C("Security", S(zz))},
		// views
		{"view-attribute", "view", az},
		{"view-attribute", "resulttype", C("View", S("v2"), fz(az))},
		{"attribute-view", "attr-rt", C("View", S(zz))},
		{"result-view", "method+http", C("Result", UT("RT"), fz(C("View", S(zz))))},
		{"attribute-view", "type", C("Attribute", S("f"), UT("RT"), fz(C("View", S(zz))))},
		{"collection-view", "type", C("Attribute", S("f"), CallArg(C("CollectionOf", UT("RT"), fz(C("View", S(zz))))))},
		// gRPC mappings
		{"grpc-request-metadata", "grpc-endpoint", C("Metadata", fz(az))},
		{"grpc-request-message", "grpc-endpoint", C("Message", fz(az))},
		{"grpc-request-metadata", "grpc-metadata", az},
		{"grpc-request-message", "grpc-message", az},
		{"grpc-response-header", "grpc-response", C("Headers", fz(az))},
		{"grpc-response-trailer", "grpc-response", C("Trailers", fz(az))},
		{"grpc-response-message", "grpc-response", C("Message", fz(az))},
		{"grpc-response-header", "grpc-endpoint", C("Response", I(0), fz(C("Headers", fz(az))))},
		{"grpc-error-response-undefined-error", "grpc-endpoint", C("Response", S(zz), I(5))},
		{"grpc-error-response-undefined-error", "service-grpc", C("Response", S(zz), I(5))},
		{"grpc-error-response-undefined-error", "api-grpc", C("Response", S(zz), I(5))},
	}
	return t
}

// familyDangling: level 1 = every template alone; level 2 = with one companion call before or
// after it; level 3 = with two companion calls in every relative position. Companions are the
// calls goa accepts in that context (sel.D3); none of them can define the name because no menu
// contains that name.
func familyDangling(sel *Selection, level int) []block {
	var out []block
	for _, tpl := range danglingTemplates() {
		tpl := tpl
		key := fmt.Sprintf("dangling%d/%s/%s/%s", level, tpl.ctx, tpl.id, describe([]Call{tpl.call}))
		if level == 1 {
			out = append(out, block{Key: key, N: 1, at: func(int) *Program {
				return &Program{Ctx: tpl.ctx, Hole: []Call{tpl.call}, Dangling: tpl.id}
			}})
			continue
		}
		if sel == nil {
			continue
		}
		flat := flatten(sel.D3[tpl.ctx])
		t := len(flat)
		if t == 0 {
			continue
		}
		k := level - 1 // companions
		n := ipow(t, k) * level
		out = append(out, block{Key: key, N: n, at: func(j int) *Program {
			pos := j % level // position of the dangling call among the level calls
			r := j / level
			comp := make([]Call, k)
			for i := k - 1; i >= 0; i-- {
				comp[i] = flat[r%t].call()
				r /= t
			}
			calls := make([]Call, 0, level)
			calls = append(calls, comp[:pos]...)
			calls = append(calls, tpl.call)
			calls = append(calls, comp[pos:]...)
			return &Program{Ctx: tpl.ctx, Hole: calls, Dangling: tpl.id}
		}})
	}
	return out
}

// ---- recursive type family ----

// recBodies are the calls a recursive type definition is assembled from; self is the name of
// the type being defined and other the name of the second type (== self at level 1).
func recBodies(self, other string, isRT bool) []Call {
	arr := func(n string) Arg { return CallArg(C("ArrayOf", S(n))) }
	b := []Call{
		C("Attribute", S("f"), S(other)),
		C("Attribute", S("g"), arr(other)),
		C("Attribute", S("h"), CallArg(C("MapOf", DT("String"), S(other)))),
		C("Attribute", S("k"), CallArg(C("MapOf", S(other), DT("String")))),
		C("Attribute", S("f"), S(other), F(C("Required", S("f")))),
		C("Attribute", S("p"), UT(other)),
		C("Attribute", S("q"), CallArg(C("ArrayOf", UT(other)))),
		C("Extend", UT(other)),
		C("Reference", UT(other)),
		C("OneOf", S("u"), F(C("Attribute", S("f"), S(other)), C("Attribute", S("s"), DT("String")))),
		C("Required", S("f")),
		C("Attribute", S("f"), S(other), F(C("Default", S(other)))),
		C("Attribute", S("f"), S(other), F(C("Example", S("e")))),
		C("Field", I(1), S("f"), S(other)),
		C("Field", I(2), S("g"), arr(other)),
	}
	if isRT {
		b = append(b,
			C("Attribute", S("c"), CallArg(C("CollectionOf", UT(other)))),
			C("Attribute", S("f"), S(other), F(C("View", S("default")))),
			C("View", S("default"), F(C("Attribute", S("f")))),
			C("View", S("default"), F(C("Attribute", S("f"), F(C("View", S("default")))))),
			C("View", S("tiny"), F(C("Attribute", S("f")))),
		)
	}
	return b
}

type recUsage struct {
	name string
	mk   func(t string) Call
}

var recUsages = []recUsage{
	{"unused", nil},
	{"http", func(t string) Call {
		return C("Service", S("s"), F(C("Method", S("m"), F(C("Payload", UT(t)), C("Result", UT(t)), C("HTTP", F(C("POST", S("/"))))))))
	}},
	{"grpc", func(t string) Call {
		return C("Service", S("s"), F(C("Method", S("m"), F(C("Payload", UT(t)), C("Result", UT(t)), C("GRPC", F())))))
	}},
	{"error", func(t string) Call {
		return C("Service", S("s"), F(C("Error", S("e"), UT(t)), C("Method", S("m"), F(C("Result", CallArg(C("ArrayOf", UT(t)))), C("HTTP", F(C("GET", S("/")), C("Response", S("e"), I(400))))))))
	}},
}

func defType(name string, isRT bool, body []Call) Call {
	if isRT {
		return C("ResultType", S("application/vnd."+name), S(name), F(body...))
	}
	return C("Type", S(name), F(body...))
}

// bodiesUpTo2 enumerates every body made of one or two calls from the alphabet.
func bodiesUpTo2(alpha []Call) [][]Call {
	var out [][]Call
	for _, a := range alpha {
		out = append(out, []Call{a})
	}
	for _, a := range alpha {
		for _, b := range alpha {
			out = append(out, []Call{a, b})
		}
	}
	return out
}

// familyRec level 1: one self-recursive type (user type or result type), bodies of 1..2 calls,
// every usage. Level 2: two mutually recursive types r1, r2 (each user type or result type),
// bodies of one call referring to the other type plus optionally one call referring to
// itself, every usage of r1.
func familyRec(level int) []block {
	var out []block
	for _, rt1 := range []bool{false, true} {
		if level == 1 {
			bodies := bodiesUpTo2(recBodies("r1", "r1", rt1))
			for _, u := range recUsages {
				rt1, u := rt1, u
				out = append(out, block{Key: fmt.Sprintf("rec1/rt=%v/%s", rt1, u.name), N: len(bodies), at: func(j int) *Program {
					top := []Call{defType("r1", rt1, bodies[j])}
					if u.mk != nil {
						top = append(top, u.mk("r1"))
					}
					return &Program{Top: top}
				}})
			}
			continue
		}
		for _, rt2 := range []bool{false, true} {
			// r1 refers to r2 (one call) and optionally to itself; same for r2
			var b1, b2 [][]Call
			for _, a := range recBodies("r1", "r2", rt1) {
				b1 = append(b1, []Call{a})
				for _, s := range recBodies("r1", "r1", rt1)[:8] {
					b1 = append(b1, []Call{a, s})
				}
			}
			for _, a := range recBodies("r2", "r1", rt2) {
				b2 = append(b2, []Call{a})
			}
			for _, u := range recUsages {
				rt1, rt2, u := rt1, rt2, u
				out = append(out, block{Key: fmt.Sprintf("rec2/rt=%v,%v/%s", rt1, rt2, u.name), N: len(b1) * len(b2), at: func(j int) *Program {
					top := []Call{defType("r1", rt1, b1[j/len(b2)]), defType("r2", rt2, b2[j%len(b2)])}
					if u.mk != nil {
						top = append(top, u.mk("r1"))
					}
					return &Program{Top: top}
				}})
			}
		}
	}
	return out
}

func familyByName(name string, sel *Selection) []block {
	switch name {
	case "d1":
		return familyD1()
	case "d2":
		return familySeq("d2", sel.D2, contextOrder, 2)
	case "d3":
		return familySeq("d3", sel.T3, contextOrder, 3)
	case "dangling1":
		return familyDangling(sel, 1)
	case "dangling2":
		return familyDangling(sel, 2)
	case "dangling3":
		return familyDangling(sel, 3)
	case "rec1":
		return familyRec(1)
	case "rec2":
		return familyRec(2)
	}
	fatalf("unknown family %q", name)
	return nil
}

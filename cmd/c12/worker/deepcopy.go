package main

import (
	"reflect"
	"strings"
	"unsafe"
)

// snapshot keeps a pristine deep copy of a mutable package-level goa value (expr.ErrorResult,
// expr.Empty) and writes it back in place before every program, so that what one program did
// to these shared objects (finalization flags, merged attributes, metadata) cannot leak into
// the next one. The address of the top-level object is preserved (goa compares it by
// identity); everything below it is re-created on every restore.
type snapshot struct {
	target reflect.Value // pointer to the live object
	saved  reflect.Value // pointer to the pristine copy
}

func takeSnapshot(ptr any) *snapshot {
	t := reflect.ValueOf(ptr)
	cp := reflect.New(t.Type().Elem())
	deepCopy(cp.Elem(), t.Elem(), map[unsafe.Pointer]reflect.Value{t.UnsafePointer(): cp})
	return &snapshot{target: t, saved: cp}
}

func (s *snapshot) restore() {
	// reflect.DeepEqual looks through unexported fields and handles cycles; the pristine
	// objects hold no func values, so equality is meaningful. Most programs never touch the
	// shared objects: skip the copy then.
	if reflect.DeepEqual(s.target.Interface(), s.saved.Interface()) {
		return
	}
	deepCopy(s.target.Elem(), s.saved.Elem(), map[unsafe.Pointer]reflect.Value{s.saved.UnsafePointer(): s.target})
}

func writable(v reflect.Value) reflect.Value {
	if v.CanSet() {
		return v
	}
	return reflect.NewAt(v.Type(), unsafe.Pointer(v.UnsafeAddr())).Elem()
}

func readable(v reflect.Value) reflect.Value {
	if v.CanInterface() || !v.CanAddr() {
		return v
	}
	return reflect.NewAt(v.Type(), unsafe.Pointer(v.UnsafeAddr())).Elem()
}

// deepCopy copies src into dst (both addressable values of the same type) re-creating every
// pointer, slice, map and interface payload below; seen maps source pointers to their copies.
func deepCopy(dst, src reflect.Value, seen map[unsafe.Pointer]reflect.Value) {
	dst = writable(dst)
	src = readable(src)
	switch src.Kind() {
	case reflect.Ptr:
		if src.IsNil() {
			dst.Set(reflect.Zero(src.Type()))
			return
		}
		if cp, ok := seen[src.UnsafePointer()]; ok && cp.Type() == src.Type() {
			dst.Set(cp)
			return
		}
		cp := reflect.New(src.Type().Elem())
		seen[src.UnsafePointer()] = cp
		deepCopy(cp.Elem(), src.Elem(), seen)
		dst.Set(cp)
	case reflect.Interface:
		if src.IsNil() {
			dst.Set(reflect.Zero(src.Type()))
			return
		}
		inner := src.Elem()
		cp := reflect.New(inner.Type()).Elem()
		tmp := reflect.New(inner.Type()).Elem()
		tmp.Set(inner)
		deepCopy(cp, tmp, seen)
		dst.Set(cp)
	case reflect.Slice:
		if src.IsNil() {
			dst.Set(reflect.Zero(src.Type()))
			return
		}
		cp := reflect.MakeSlice(src.Type(), src.Len(), src.Len())
		for i := 0; i < src.Len(); i++ {
			deepCopy(cp.Index(i), src.Index(i), seen)
		}
		dst.Set(cp)
	case reflect.Map:
		if src.IsNil() {
			dst.Set(reflect.Zero(src.Type()))
			return
		}
		cp := reflect.MakeMapWithSize(src.Type(), src.Len())
		it := src.MapRange()
		for it.Next() {
			k := reflect.New(src.Type().Key()).Elem()
			tk := reflect.New(src.Type().Key()).Elem()
			tk.Set(it.Key())
			deepCopy(k, tk, seen)
			v := reflect.New(src.Type().Elem()).Elem()
			tv := reflect.New(src.Type().Elem()).Elem()
			tv.Set(it.Value())
			deepCopy(v, tv, seen)
			cp.SetMapIndex(k, v)
		}
		dst.Set(cp)
	case reflect.Struct:
		for i := 0; i < src.NumField(); i++ {
			deepCopy(dst.Field(i), src.Field(i), seen)
		}
	case reflect.Array:
		for i := 0; i < src.Len(); i++ {
			deepCopy(dst.Index(i), src.Index(i), seen)
		}
	default: // scalars, strings, funcs, chans: shared as is
		dst.Set(src)
	}
}

// containsName reports whether any string reachable from v (fields, slice elements, map keys
// and values, interface payloads) contains name. It is the reference model of the
// dangling-reference clause: the programs of that family never define the name, so if the
// accepted design still mentions it, the design refers to something that does not exist.
// zzPath records, innermost first, the fields through which containsName found the name
// (diagnostics for replays).
var zzPath []string

func containsName(v reflect.Value, name string, seen map[unsafe.Pointer]bool) bool {
	if !v.IsValid() {
		return false
	}
	v = readable(v)
	switch v.Kind() {
	case reflect.String:
		return strings.Contains(v.String(), name)
	case reflect.Ptr:
		if v.IsNil() || seen[v.UnsafePointer()] {
			return false
		}
		seen[v.UnsafePointer()] = true
		return containsName(v.Elem(), name, seen)
	case reflect.Interface:
		if v.IsNil() {
			return false
		}
		return containsName(v.Elem(), name, seen)
	case reflect.Slice:
		if v.IsNil() {
			return false
		}
		fallthrough
	case reflect.Array:
		for i := 0; i < v.Len(); i++ {
			if containsName(v.Index(i), name, seen) {
				return true
			}
		}
	case reflect.Map:
		if v.IsNil() {
			return false
		}
		isMeta := v.Type().Name() == "MetaExpr" && strings.HasPrefix(v.Type().PkgPath(), "goa.design/goa/v3")
		it := v.MapRange()
		for it.Next() {
			val := it.Value()
			if isMeta && it.Key().Kind() == reflect.String && it.Key().String() == "view" && val.Kind() == reflect.Slice && val.Len() > 1 {
				// View(name) selects the one view an attribute / result is rendered with; the
				// selection is the last value (a later View call replaces an earlier one), the
				// values before it are history, not references
				val = val.Index(val.Len() - 1)
			}
			if containsName(it.Key(), name, seen) || containsName(val, name, seen) {
				return true
			}
		}
	case reflect.Struct:
		if !strings.HasPrefix(v.Type().PkgPath(), "goa.design/goa/v3") {
			return false // third-party data (the example generator's word lists), not design
		}
		for i := 0; i < v.NumField(); i++ {
			if containsName(v.Field(i), name, seen) {
				zzPath = append(zzPath, v.Type().String()+"."+v.Type().Field(i).Name)
				return true
			}
		}
	}
	return false
}

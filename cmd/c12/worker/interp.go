package main

import (
	"errors"
	"fmt"
	"reflect"
	"regexp"
	"runtime"
	"strings"
	"unsafe"

	"goa.design/goa/v3/dsl"
	"goa.design/goa/v3/eval"
	"goa.design/goa/v3/expr"
)

// Outcome is what one execution of one program produced.
type Outcome struct {
	Class    string `json:"class"` // accepted | rejected | panic
	NErr     int    `json:"nerr,omitempty"`
	FirstErr string `json:"first_err,omitempty"`
	Trivial  bool   `json:"trivial,omitempty"` // rejected only with "invalid use of" (context mismatch) errors
	// Bad is non-empty when a rejection breaks the error-list clause of the oracle.
	// HasZZ: the accepted design still contains the never-defined name of the dangling family.
	HasZZ   bool   `json:"has_zz,omitempty"`
	ZZPath  string `json:"zz_path,omitempty"` // where (diagnostics)
	Bad     string `json:"bad,omitempty"`
	BadKind string `json:"bad_kind,omitempty"`
	// panic details
	Site      string   `json:"site,omitempty"`  // file:function of the first goa frame below the panic
	Kind      string   `json:"kind,omitempty"`  // nil-deref, index-out-of-range, type-assertion, ...
	Phase     string   `json:"phase,omitempty"` // toplevel | run | prepare | validate | finalize
	Msg       string   `json:"msg,omitempty"`
	Stack     string   `json:"stack,omitempty"`     // goa frames of the panic (single mode only)
	Path      string   `json:"path,omitempty"`      // chain of program calls active at the panic, outermost first
	HolePath  []string `json:"hole_path,omitempty"` // the enumerated calls among them
	InHole    bool     `json:"in_hole,omitempty"`
	CurType   string   `json:"cur_type,omitempty"`  // type of eval.Current() when the innermost active call started
	HoleType  string   `json:"hole_type,omitempty"` // type of eval.Current() at the hole
	culprit   *Call
	outermost *Call
}

type frame struct {
	call    *Call
	inHole  bool
	curType string
}

type runner struct {
	hole     []Call
	stack    []frame
	holeType string
}

var primitives = map[string]expr.DataType{
	"Boolean": expr.Boolean, "Int": expr.Int, "Int32": expr.Int32, "Int64": expr.Int64,
	"UInt": expr.UInt, "UInt32": expr.UInt32, "UInt64": expr.UInt64, "Float32": expr.Float32,
	"Float64": expr.Float64, "String": expr.String, "Bytes": expr.Bytes, "Any": expr.Any,
}

var snapshots []*snapshot

// resetState gives every program the state of a fresh process: new eval context, new roots
// (as goa's own tests do in expr.setupDSLRun, but without pre-creating an API because a real
// design starts with expr.Root.API == nil) and pristine copies of the two mutable built-in
// types expr.ErrorResult and expr.Empty.
func resetState() {
	if snapshots == nil {
		snapshots = []*snapshot{takeSnapshot(expr.ErrorResult), takeSnapshot(expr.Empty)}
	}
	for _, s := range snapshots {
		s.restore()
	}
	clear(exprValidated)
	eval.Reset()
	expr.Root = new(expr.RootExpr)
	expr.GeneratedResultTypes = new(expr.ResultTypesRoot)
	if err := eval.Register(expr.Root); err != nil {
		panic("c12 worker: " + err.Error())
	}
	if err := eval.Register(expr.GeneratedResultTypes); err != nil {
		panic("c12 worker: " + err.Error())
	}
}

func typeName(e eval.Expression) string {
	if e == nil {
		return "nil"
	}
	s := reflect.TypeOf(e).String()
	s = strings.TrimPrefix(s, "*")
	s = strings.TrimPrefix(s, "expr.")
	s = strings.TrimPrefix(s, "eval.")
	return s
}

func (r *runner) exec(calls []Call, inHole bool) {
	for i := range calls {
		r.call(&calls[i], inHole)
	}
}

func (r *runner) call(c *Call, inHole bool) []reflect.Value {
	if c.Fn == holeFn {
		r.holeType = typeName(eval.Current())
		r.exec(r.hole, true)
		return nil
	}
	fi, ok := funcs[c.Fn]
	if !ok {
		panic(harnessPanic("unknown DSL function " + c.Fn))
	}
	r.stack = append(r.stack, frame{call: c, inHole: inHole, curType: typeName(eval.Current())})
	args := r.buildArgs(fi, c, inHole)
	var out []reflect.Value
	if n := fi.T.NumIn(); fi.T.IsVariadic() && len(args) == n-1 {
		// a call without variadic arguments passes a nil slice in Go (reflect's Call would
		// pass an empty non-nil one, which `if args == nil` in the DSL tells apart)
		out = fi.V.CallSlice(append(args, reflect.Zero(fi.T.In(n-1))))
	} else {
		out = fi.V.Call(args)
	}
	r.stack = r.stack[:len(r.stack)-1]
	return out
}

type harnessPanic string

func (r *runner) buildArgs(fi *fnInfo, c *Call, inHole bool) []reflect.Value {
	t := fi.T
	nfixed := t.NumIn()
	if t.IsVariadic() {
		nfixed--
	}
	if len(c.Args) < nfixed || (!t.IsVariadic() && len(c.Args) != nfixed) {
		panic(harnessPanic(fmt.Sprintf("%s: %d arguments for %s", c.Fn, len(c.Args), t)))
	}
	args := make([]reflect.Value, len(c.Args))
	for i := range c.Args {
		var pt reflect.Type
		if i < nfixed {
			pt = t.In(i)
		} else {
			pt = t.In(nfixed).Elem()
		}
		args[i] = r.value(&c.Args[i], pt, inHole)
	}
	return args
}

func (r *runner) value(a *Arg, pt reflect.Type, inHole bool) reflect.Value {
	conv := func(v any) reflect.Value {
		rv := reflect.ValueOf(v)
		if !rv.IsValid() {
			return reflect.Zero(pt)
		}
		if rv.Type().AssignableTo(pt) {
			if pt.Kind() == reflect.Interface {
				x := reflect.New(pt).Elem()
				x.Set(rv)
				return x
			}
			return rv
		}
		if rv.Type().ConvertibleTo(pt) && pt.Kind() != reflect.Interface {
			return rv.Convert(pt)
		}
		panic(harnessPanic(fmt.Sprintf("argument %+v (%s) does not fit parameter type %s", *a, rv.Type(), pt)))
	}
	switch a.K {
	case "s":
		return conv(a.S)
	case "i":
		if pt.Kind() == reflect.Bool {
			return conv(a.I != 0)
		}
		return conv(a.I)
	case "f":
		return conv(a.F)
	case "nil":
		return reflect.Zero(pt)
	case "fn":
		body := a.Body
		// lexical chain of program calls enclosing this function literal (the creating call is
		// the last frame)
		lex := append([]frame{}, r.stack...)
		return conv(func() {
			old := r.stack
			n := len(lex)
			sync := n > 0 && len(old) >= n && old[n-1].call == lex[n-1].call
			if !sync {
				// deferred DSL run later by the engine: show the lexical nesting in the path
				r.stack = append([]frame{}, lex...)
			}
			r.exec(body, inHole)
			r.stack = old
		})
	case "dt":
		p, ok := primitives[a.S]
		if !ok {
			panic(harnessPanic("unknown primitive " + a.S))
		}
		return conv(p)
	case "ut":
		var ut expr.UserType
		if expr.Root != nil {
			ut = expr.Root.UserType(a.S)
		}
		if ut == nil {
			return reflect.Zero(pt)
		}
		return conv(ut)
	case "failedrt":
		fi, ok := funcs["ResultType"]
		if !ok {
			panic(harnessPanic("no ResultType function in the table"))
		}
		out := fi.V.Call([]reflect.Value{reflect.ValueOf("application/vnd.failed"), reflect.ValueOf("Failed"),
			reflect.ValueOf(func() {}), reflect.ValueOf("extra")})
		return conv(out[0].Interface())
	case "call":
		out := r.call(a.Call, inHole)
		if len(out) == 0 {
			panic(harnessPanic("nested call " + a.Call.Fn + " returns nothing"))
		}
		if out[0].Kind() == reflect.Interface && out[0].IsNil() {
			return reflect.Zero(pt)
		}
		return conv(out[0].Interface())
	case "scheme":
		var sch *expr.SchemeExpr
		if expr.Root != nil {
			for _, x := range expr.Root.Schemes {
				if x.SchemeName == a.S {
					sch = x
				}
			}
		}
		return conv(sch)
	case "strs":
		return conv([]string{a.S})
	case "rnd":
		return conv(expr.NewDeterministicRandomizer())
	}
	panic(harnessPanic("unknown argument kind " + a.K))
}

// normalise turns a message into its shape: source location prefix dropped, quoted strings
// and digit runs replaced by placeholders.
func normalise(s string) string {
	if len(s) > 0 && s[0] == '[' {
		if i := strings.Index(s, "] "); i > 0 {
			s = s[i+2:]
		}
	}
	var sb strings.Builder
	for i := 0; i < len(s) && sb.Len() < 100; {
		c := s[i]
		switch {
		case c == '"':
			j := strings.IndexByte(s[i+1:], '"')
			if j < 0 {
				sb.WriteString(`"_`)
				i = len(s)
			} else {
				sb.WriteString(`"_"`)
				i += j + 2
			}
		case c >= '0' && c <= '9':
			if i+1 < len(s) && c == '0' && s[i+1] == 'x' {
				i += 2
				for i < len(s) && strings.IndexByte("0123456789abcdefABCDEF", s[i]) >= 0 {
					i++
				}
				sb.WriteString("ADDR")
				continue
			}
			for i < len(s) && (s[i] >= '0' && s[i] <= '9' || s[i] == '.') {
				i++
			}
			sb.WriteByte('N')
		case c == '\n' || c == '\t':
			sb.WriteByte(' ')
			i++
		default:
			sb.WriteByte(c)
			i++
		}
	}
	return sb.String()
}

func panicKind(v any) (kind, msg string) {
	switch x := v.(type) {
	case harnessPanic:
		return "HARNESS", string(x)
	case error:
		msg = x.Error()
	default:
		msg = fmt.Sprint(v)
	}
	switch {
	case strings.Contains(msg, "nil pointer dereference"):
		kind = "nil-deref"
	case strings.Contains(msg, "index out of range"):
		kind = "index-out-of-range"
	case strings.Contains(msg, "slice bounds out of range"):
		kind = "slice-bounds"
	case strings.Contains(msg, "interface conversion"):
		kind = "type-assertion"
	case strings.Contains(msg, "nil map"):
		kind = "nil-map-write"
	case strings.Contains(msg, "reflect"):
		kind = "reflect:" + normalise(msg)
	default:
		kind = "explicit:" + normalise(msg)
	}
	return kind, msg
}

const goaPrefix = "goa.design/goa/v3/"

// panicSite walks the stack of the recovered panic: the first goa frame below the panic is
// the site (package dir/file name:function, no line numbers), the phase is read off the eval
// engine frames further down.
func panicSite() (site, phase string) {
	pcs := make([]uintptr, 256)
	n := runtime.Callers(3, pcs)
	frames := runtime.CallersFrames(pcs[:n])
	seenPanic := false
	phase = "toplevel"
	for {
		f, more := frames.Next()
		fn := f.Function
		if !seenPanic {
			if fn == "runtime.gopanic" || fn == "runtime.sigpanic" || strings.HasPrefix(fn, "runtime.panic") || strings.HasPrefix(fn, "runtime.goPanic") {
				seenPanic = true
			}
		} else if strings.HasPrefix(fn, goaPrefix) {
			short := strings.TrimPrefix(fn, goaPrefix)
			if site == "" {
				file := f.File
				if i := strings.LastIndex(file, "/"); i >= 0 {
					file = file[i+1:]
				}
				pkg := short
				if i := strings.Index(pkg, "."); i >= 0 {
					pkg = pkg[:i]
				}
				name := short[len(pkg)+1:]
				site = pkg + "/" + file + ":" + name
			}
			switch short {
			case "eval.finalizeSet":
				phase = "finalize"
			case "eval.validateSet":
				phase = "validate"
			case "eval.prepareSet":
				phase = "prepare"
			case "eval.runSet":
				phase = "run"
			}
		}
		if !more {
			break
		}
	}
	if site == "" {
		site = "?"
	}
	return site, phase
}

// run executes the program on fresh state exactly as cmd/goa's generated main does: the
// top-level calls run first (package initialisation of the design); if they reported errors the
// tool stops with them; otherwise eval.RunDSL runs the deferred DSLs, prepares, validates and
// finalizes.
func run(p *Program) (out *Outcome) {
	resetState()
	r := &runner{hole: p.Hole}
	out = &Outcome{}
	calls := p.calls()
	var err error
	func() {
		defer func() {
			if rec := recover(); rec != nil {
				out.Class = "panic"
				out.Kind, out.Msg = panicKind(rec)
				out.Site, out.Phase = panicSite()
				if wantStack {
					out.Stack = goaStack()
				}
				var names []string
				for i, f := range r.stack {
					names = append(names, f.call.Fn)
					if f.inHole {
						out.HolePath = append(out.HolePath, f.call.Fn)
					}
					if i == len(r.stack)-1 {
						c := *f.call
						out.culprit = &c
						out.InHole = f.inHole
						out.CurType = f.curType
					}
					if out.outermost == nil && f.inHole {
						c := *f.call
						out.outermost = &c
					}
				}
				out.Path = strings.Join(names, ">")
				// leave goa's engine in a sane state for the next program
				eval.Context.Stack = nil
			}
		}()
		r.exec(calls, false)
		if eval.Context.Errors != nil {
			err = eval.Context.Errors
			return
		}
		err = eval.RunDSL()
	}()
	out.HoleType = r.holeType
	if out.Class == "panic" {
		return out
	}
	if err == nil {
		out.Class = "accepted"
		if p.Dangling != "" {
			seen := map[unsafe.Pointer]bool{}
			zzPath = nil
			out.HasZZ = containsName(reflect.ValueOf(expr.Root), zz, seen) ||
				containsName(reflect.ValueOf(expr.GeneratedResultTypes), zz, seen)
			for i := len(zzPath) - 1; i >= 0; i-- {
				out.ZZPath += "/" + zzPath[i]
			}
		}
		return out
	}
	out.Class = "rejected"
	checkErrors(err, out)
	return out
}

// checkErrors applies the error-list clause of the oracle: the list is non-empty and every
// entry has a non-empty message that locates an expression (it names an expression, or it
// carries the file/line of the offending DSL call).
func checkErrors(err error, out *Outcome) {
	bad := func(kind, what string) {
		if out.Bad == "" {
			out.BadKind, out.Bad = kind, what
		}
	}
	trivial := true
	var first string
	n := 0
	entry := func(msg string, located bool) {
		n++
		if first == "" {
			first = msg
		}
		if strings.TrimSpace(msg) == "" {
			bad("empty-message", fmt.Sprintf("error entry %d has an empty message", n))
		} else if !located {
			bad("unlocated", fmt.Sprintf("error entry %d names no expression and has no source location: %q", n, msg))
		}
		if !strings.Contains(msg, "invalid use of ") {
			trivial = false
		}
	}
	var me eval.MultiError
	if errors.As(err, &me) {
		if len(me) == 0 {
			bad("empty-list", "evaluation failed with an empty error list")
		}
		for _, e := range me {
			if e == nil || e.GoError == nil {
				entry("", false)
				continue
			}
			var ve *eval.ValidationErrors
			if errors.As(e.GoError, &ve) {
				if len(ve.Errors) == 0 {
					entry("", false)
				}
				for i, sub := range ve.Errors {
					name := ""
					if i < len(ve.Expressions) && ve.Expressions[i] != nil {
						name = ve.Expressions[i].EvalName()
					}
					msg := ""
					if sub != nil {
						msg = sub.Error()
					}
					if strings.TrimSpace(msg) == "" {
						entry("", false)
					} else {
						entry(name+": "+msg, strings.TrimSpace(name) != "")
					}
				}
				continue
			}
			msg := e.GoError.Error()
			located := e.File != "" || namesExpression(msg)
			entry(msg, located)
		}
	} else {
		// a bare error (eval.RunDSL returns these for root-level problems)
		entry(err.Error(), namesExpression(err.Error()))
	}
	out.NErr = n
	out.FirstErr = first
	out.Trivial = trivial && n > 0
}

var reIn = regexp.MustCompile(` in \S`)

func namesExpression(msg string) bool {
	return strings.Contains(msg, "(top level)") || reIn.MatchString(msg)
}

var _ = dsl.String

// wantStack (single mode): keep the goa frames of a recovered panic for the replay output.
var wantStack bool

func goaStack() string {
	pcs := make([]uintptr, 256)
	n := runtime.Callers(3, pcs)
	frames := runtime.CallersFrames(pcs[:n])
	var sb strings.Builder
	for {
		f, more := frames.Next()
		if strings.HasPrefix(f.Function, goaPrefix) {
			file := f.File
			if i := strings.Index(file, "/expr/"); i >= 0 {
				file = file[i+1:]
			} else if i := strings.Index(file, "/dsl/"); i >= 0 {
				file = file[i+1:]
			} else if i := strings.Index(file, "/eval/"); i >= 0 {
				file = file[i+1:]
			}
			fmt.Fprintf(&sb, "%s (%s:%d)\n", strings.TrimPrefix(f.Function, goaPrefix), file, f.Line)
		}
		if !more {
			break
		}
	}
	return sb.String()
}

package main

import (
	_ "unsafe" // go:linkname

	"goa.design/goa/v3/expr"
)

// exprValidated aliases goa's unexported expr.validated, the package-level memo of validated
// attributes (expr/attribute.go). A fresh process starts with it empty; a worker that runs
// many programs must empty it before each one, both for fidelity and because it would
// otherwise keep every attribute of every program alive. If goa renames the variable the
// worker no longer links and the check reports a harness error.
//
//go:linkname exprValidated goa.design/goa/v3/expr.validated
var exprValidated map[*expr.AttributeExpr]bool

//go:build !c12table

package main

// Table is replaced by the file the C12 driver generates from /repo/dsl/*.go (build tag
// c12table). The empty stub only keeps `go build ./...` working inside /verif.
var Table = []Fn{}

package main

// Contexts: every context is a small, complete and valid design (checked by -mode selftest:
// each scaffold with an empty hole must be accepted by goa) with one hole where the
// enumerated calls go. Complete means: whatever the hole belongs to is used by a service
// method with a transport, so that goa's prepare / validate / finalize passes really visit it
// (goa does not validate a type no method uses).
//
// The common prelude defines the names the argument menus call "existing": user type "a"
// (attributes a, b), result type RT (attributes a, b; views default and a), basic-auth scheme
// "a"; scaffolds define attribute "a", error "a", service "s", method "m".

var prelude = []Call{
	C("Type", S("a"), F(C("Attribute", S("a"), DT("String")), C("Attribute", S("b"), DT("Int")))),
	C("ResultType", S("application/vnd.rt"), S("RT"), F(
		C("Attributes", F(C("Attribute", S("a"), DT("String")), C("Attribute", S("b"), DT("Int")))),
		C("View", S("default"), F(C("Attribute", S("a")), C("Attribute", S("b")))),
		C("View", S("a"), F(C("Attribute", S("a")))),
	)),
	C("BasicAuthSecurity", S("a")),
}

func attrAB() []Call {
	return []Call{C("Attribute", S("a"), DT("String")), C("Attribute", S("b"), DT("Int"))}
}

func with(calls []Call, more ...Call) []Call { return append(append([]Call{}, calls...), more...) }

func payloadHTTP() Call { return C("Payload", F(attrAB()...)) }

// payload with attributes a, b plus basic-auth credentials so that Security("a") is valid
func payloadAuth() Call {
	return C("Payload", F(with(attrAB(), C("Username", S("user"), DT("String")), C("Password", S("pass"), DT("String")))...))
}
func payloadGRPC() Call {
	return C("Payload", F(C("Field", I(1), S("a"), DT("String")), C("Field", I(2), S("b"), DT("Int"))))
}
func resultGRPC() Call {
	return C("Result", F(C("Field", I(1), S("a"), DT("String")), C("Field", I(2), S("b"), DT("Int"))))
}
func httpGET() Call  { return C("HTTP", F(C("GET", S("/")))) }
func httpPOST() Call { return C("HTTP", F(C("POST", S("/")))) }

func svc(body ...Call) []Call  { return []Call{C("Service", S("s"), F(body...))} }
func method(body ...Call) Call { return C("Method", S("m"), F(body...)) }
func api(body ...Call) []Call  { return []Call{C("API", S("api"), F(body...))} }

// baseHTTP / baseGRPC: an ordinary service so that API-level constructs are exercised
func baseHTTP() []Call {
	return []Call{C("Service", S("s"), F(C("Error", S("a")), method(payloadHTTP(), C("Result", UT("RT")), httpGET())))}
}
func baseGRPC() []Call {
	return []Call{C("Service", S("s"), F(C("Error", S("a")), method(payloadGRPC(), resultGRPC(), C("GRPC", F()))))}
}

// typ: user type t whose DSL is body, used as payload and result of an HTTP method
func typ(body ...Call) []Call {
	return []Call{C("Type", S("t"), F(body...)),
		C("Service", S("s"), F(method(C("Payload", UT("t")), C("Result", UT("t")), httpPOST())))}
}

// rtype: result type T whose DSL is body, used as result of an HTTP method
func rtype(body ...Call) []Call {
	return []Call{C("ResultType", S("application/vnd.t"), S("T"), F(body...)),
		C("Service", S("s"), F(method(C("Result", UT("T")), httpGET())))}
}

// httpEndpoint: method m with payload, result RT, error a and an HTTP endpoint whose DSL is body.
func httpEndpoint(route string, body ...Call) []Call {
	return svc(method(payloadHTTP(), C("Result", UT("RT")), C("Error", S("a")),
		C("HTTP", F(with([]Call{C(route, S("/"))}, body...)...))))
}
func grpcEndpoint(body ...Call) []Call {
	return svc(method(payloadGRPC(), resultGRPC(), C("Error", S("a")), C("GRPC", F(body...))))
}

// contextOrder fixes the enumeration order of contexts (simplest first).
var contextOrder = []string{
	"top", "api", "api-http", "api-grpc", "server", "host", "contact", "license", "docs",
	"service", "service-http", "service-grpc", "fileserver",
	"method", "method+http", "method+grpc", "payload", "result", "error-dsl", "security",
	"type", "attr-string", "attr-int", "attr-array", "attr-map", "attr-rt", "arrayof-dsl", "oneof", "example",
	"resulttype", "rt-attributes", "view",
	"http-endpoint", "http-response", "http-error-response", "http-headers", "http-params", "http-body",
	"grpc-endpoint", "grpc-response", "grpc-error-response", "grpc-message", "grpc-metadata",
	"scheme-basic", "scheme-apikey", "scheme-jwt", "scheme-oauth2",
}

var scaffolds = map[string][]Call{
	"top":      with([]Call{hole}, baseHTTP()...),
	"api":      with(api(C("Error", S("a")), hole), baseHTTP()...),
	"api-http": with(api(C("Error", S("a")), C("HTTP", F(hole))), baseHTTP()...),
	"api-grpc": with(api(C("Error", S("a")), C("GRPC", F(hole))), baseGRPC()...),
	"server":   with(api(C("Server", S("srv"), F(C("Services", S("s")), hole))), baseHTTP()...),
	"host": with(api(C("Server", S("srv"), F(C("Host", S("h"), F(C("URI", S("http://localhost:80")), hole))))),
		baseHTTP()...),
	"contact": with(api(C("Contact", F(hole))), baseHTTP()...),
	"license": with(api(C("License", F(hole))), baseHTTP()...),
	"docs":    with(api(C("Docs", F(hole))), baseHTTP()...),

	"service":      svc(C("Error", S("a")), hole, method(payloadHTTP(), C("Result", UT("RT")), httpGET())),
	"service-http": svc(C("Error", S("a")), C("HTTP", F(hole)), method(payloadHTTP(), C("Result", UT("RT")), httpGET())),
	"service-grpc": svc(C("Error", S("a")), C("GRPC", F(hole)), method(payloadGRPC(), resultGRPC(), C("GRPC", F()))),
	"fileserver":   svc(C("Files", S("/f"), S("f.txt"), F(hole))),

	"method":      svc(method(payloadHTTP(), C("Result", UT("RT")), C("Error", S("a")), hole)),
	"method+http": svc(method(payloadHTTP(), C("Result", UT("RT")), C("Error", S("a")), hole, httpGET())),
	"method+grpc": svc(method(payloadGRPC(), resultGRPC(), C("Error", S("a")), hole, C("GRPC", F()))),
	"payload":     svc(method(C("Payload", F(with(attrAB(), hole)...)), httpPOST())),
	"result":      svc(method(C("Result", F(with(attrAB(), hole)...)), httpGET())),
	"error-dsl":   svc(method(C("Error", S("a"), F(hole)), httpGET())),
	"security":    svc(method(payloadAuth(), C("Security", S("a"), F(hole)), httpGET())),

	"type":        typ(with(attrAB(), hole)...),
	"attr-string": typ(C("Attribute", S("f"), DT("String"), F(hole))),
	"attr-int":    typ(C("Attribute", S("f"), DT("Int"), F(hole))),
	"attr-array":  typ(C("Attribute", S("f"), CallArg(C("ArrayOf", DT("String"))), F(hole))),
	"attr-map":    typ(C("Attribute", S("f"), CallArg(C("MapOf", DT("String"), DT("String"))), F(hole))),
	"attr-rt":     typ(C("Attribute", S("f"), UT("RT"), F(hole))),
	"arrayof-dsl": typ(C("Attribute", S("f"), CallArg(C("ArrayOf", DT("String"), F(hole))))),
	"oneof":       typ(C("OneOf", S("u"), F(C("Attribute", S("a"), DT("String")), hole))),
	"example":     typ(C("Attribute", S("f"), DT("String"), F(C("Example", F(C("Value", S("v")), hole))))),

	"resulttype":    rtype(C("Attributes", F(attrAB()...)), hole, C("View", S("default"), F(C("Attribute", S("a"))))),
	"rt-attributes": rtype(C("Attributes", F(with(attrAB(), hole)...)), C("View", S("default"), F(C("Attribute", S("a"))))),
	"view":          rtype(C("Attributes", F(attrAB()...)), C("View", S("default"), F(C("Attribute", S("a")), hole))),

	"http-endpoint":       httpEndpoint("POST", hole),
	"http-response":       httpEndpoint("GET", C("Response", I(200), F(hole))),
	"http-error-response": httpEndpoint("GET", C("Response", S("a"), I(400), F(hole))),
	"http-headers":        httpEndpoint("GET", C("Headers", F(hole))),
	"http-params":         httpEndpoint("GET", C("Params", F(hole))),
	"http-body":           httpEndpoint("POST", C("Body", F(C("Attribute", S("a")), hole))),

	"grpc-endpoint":       grpcEndpoint(hole),
	"grpc-response":       grpcEndpoint(C("Response", I(0), F(hole))),
	"grpc-error-response": grpcEndpoint(C("Response", S("a"), I(5), F(hole))),
	"grpc-message":        grpcEndpoint(C("Message", F(C("Attribute", S("a")), hole))),
	"grpc-metadata":       grpcEndpoint(C("Metadata", F(C("Attribute", S("a")), hole))),

	"scheme-basic":  with([]Call{C("BasicAuthSecurity", S("s2"), F(hole))}, baseHTTP()...),
	"scheme-apikey": with([]Call{C("APIKeySecurity", S("s2"), F(hole))}, baseHTTP()...),
	"scheme-jwt":    with([]Call{C("JWTSecurity", S("s2"), F(hole))}, baseHTTP()...),
	"scheme-oauth2": with([]Call{C("OAuth2Security", S("s2"), F(hole))}, baseHTTP()...),
}

// extraContexts are scaffolds used by the dangling family only (not enumerated at depth 1..3):
// designs in which a security requirement made of schemes a (basic auth) and k (API key) is
// valid at method, service and API level, because the method payload carries the credentials
// and a method-level requirement keeps the design valid while the hole is empty.
var extraContexts = []string{"method+auth", "service+auth", "api+auth"}

func payloadAuth2() Call {
	return C("Payload", F(with(attrAB(), C("Username", S("user"), DT("String")), C("Password", S("pass"), DT("String")),
		C("APIKey", S("k"), S("key"), DT("String")))...))
}

func authMethod(inMethod ...Call) Call {
	body := []Call{payloadAuth2(), C("Result", UT("RT")), C("Error", S("a"))}
	body = append(body, inMethod...)
	body = append(body, C("Security", S("a"), S("k")), httpGET())
	return method(body...)
}

func init() {
	apiKey := C("APIKeySecurity", S("k"))
	scaffolds["method+auth"] = []Call{apiKey, C("Service", S("s"), F(authMethod(hole)))}
	scaffolds["service+auth"] = []Call{apiKey, C("Service", S("s"), F(hole, authMethod()))}
	scaffolds["api+auth"] = []Call{apiKey, C("API", S("api"), F(hole)), C("Service", S("s"), F(authMethod()))}
}

// relevantContexts are the contexts in which the thorough tier explores depth 3 with ill-typed
// calls too (accepted calls only elsewhere).
var relevantContexts = []string{"api", "service", "method+http", "payload", "resulttype", "http-endpoint", "http-response", "grpc-endpoint"}

package main

import (
	"fmt"
	"reflect"
	"strings"
)

// Viol is one oracle failure of one program.
type Viol struct {
	Sig  string   `json:"sig"`
	What string   `json:"what"`
	Prog *Program `json:"prog"` // the failing program as enumerated
	Min  *Program `json:"min"`  // 1-minimal sub-program with the same failure (what the signature describes)
	Src  string   `json:"src"`
}

var extraRuns int64 // executions spent on minimisation / context probes

func rerun(p *Program) *Outcome {
	extraRuns++
	return run(p)
}

func (p *Program) enumerated() []Call {
	if p.Ctx != "" {
		return p.Hole
	}
	return p.Top
}

func (p *Program) withCalls(calls []Call) *Program {
	q := *p
	if p.Ctx != "" {
		q.Hole = calls
	} else {
		q.Top = calls
	}
	return &q
}

func mentionsZZ(c Call) bool {
	for _, a := range c.Args {
		if a.K == "s" && strings.Contains(a.S, zz) {
			return true
		}
		for _, b := range a.Body {
			if mentionsZZ(b) {
				return true
			}
		}
		if a.Call != nil && mentionsZZ(*a.Call) {
			return true
		}
	}
	return false
}

func posName(i, n int) string {
	switch {
	case n == 1:
		return "only"
	case i == 0:
		return "first"
	case i == n-1:
		return "last"
	}
	return "middle"
}

// zzPosition says where the dangling name sits in the list it belongs to: among the name
// arguments of its call (Security, Required, ...) or, for one-name calls, among the sibling
// calls of the same list (headers, view attributes, ...).
func zzPosition(calls []Call) string {
	for i, c := range calls {
		direct, nstr := -1, 0
		for _, a := range c.Args {
			if a.K == "s" || a.K == "scheme" {
				if a.K == "s" && strings.Contains(a.S, zz) {
					direct = nstr
				}
				nstr++
			}
		}
		if direct >= 0 {
			if nstr > 1 {
				return posName(direct, nstr) + "-argument"
			}
			return posName(i, len(calls)) + "-entry"
		}
		for _, a := range c.Args {
			if r := zzPosition(a.Body); r != "" {
				return r
			}
			if a.Call != nil {
				if r := zzPosition([]Call{*a.Call}); r != "" {
					return r
				}
			}
		}
	}
	return ""
}

// minimise greedily removes enumerated calls while same(outcome) still holds; the result is
// 1-minimal (no single call can be removed). keep protects calls that must stay.
func minimise(p *Program, out *Outcome, same func(*Outcome) bool, keep func(Call) bool) (*Program, *Outcome) {
	cur, curOut := p, out
	for {
		calls := cur.enumerated()
		if len(calls) <= 1 {
			return cur, curOut
		}
		removed := false
		for i := range calls {
			if keep != nil && keep(calls[i]) {
				continue
			}
			rest := append(append([]Call{}, calls[:i]...), calls[i+1:]...)
			q := cur.withCalls(rest)
			o := rerun(q)
			if same(o) {
				cur, curOut, removed = q, o, true
				break
			}
		}
		if !removed {
			return cur, curOut
		}
	}
}

func (fi *fnInfo) menuAt(i int) []Arg {
	nfixed := len(fi.fixed)
	if i < nfixed {
		return fi.fixed[i]
	}
	if fi.T.IsVariadic() {
		return menuFor(fi.T.In(nfixed).Elem())
	}
	return nil
}

// canonicalise rewrites the arguments of the enumerated calls towards the canonical (first)
// menu entries as long as same(outcome) still holds: trailing variadic arguments are dropped,
// every other argument is replaced by the canonical value of its position. What is left
// differs from the canonical call only where the difference matters for the failure, so the
// argument class in the signature does not multiply with irrelevant arguments.
func canonicalise(p *Program, out *Outcome, same func(*Outcome) bool) (*Program, *Outcome) {
	cur, curOut := p, out
	try := func(ci int, c Call) bool {
		calls := append([]Call{}, cur.enumerated()...)
		calls[ci] = c
		q := cur.withCalls(calls)
		o := rerun(q)
		if same(o) {
			cur, curOut = q, o
			return true
		}
		return false
	}
	for changed := true; changed; {
		changed = false
		for ci := range cur.enumerated() {
			fi, ok := funcs[cur.enumerated()[ci].Fn]
			if !ok {
				continue
			}
			nfixed := len(fi.fixed)
			for {
				c := cur.enumerated()[ci]
				if len(c.Args) <= nfixed {
					break
				}
				c.Args = append([]Arg{}, c.Args[:len(c.Args)-1]...)
				if !try(ci, c) {
					break
				}
				changed = true
			}
			for i := range cur.enumerated()[ci].Args {
				c := cur.enumerated()[ci]
				menu := fi.menuAt(i)
				if len(menu) == 0 || reflect.DeepEqual(c.Args[i], menu[0]) {
					continue
				}
				c.Args = append([]Arg{}, c.Args...)
				c.Args[i] = menu[0]
				if try(ci, c) {
					changed = true
				}
			}
		}
	}
	return cur, curOut
}

func usesFailedResultType(calls []Call) bool {
	for _, c := range calls {
		for _, a := range c.Args {
			if a.K == "failedrt" {
				return true
			}
		}
	}
	return false
}

// sigCtx is the context part of a signature. For a program in a scaffold variant
// (base@dim=kind,...) the variant is generalised as far as the failure allows, so that one root
// cause does not yield one signature per environment: if the same enumerated calls fail the
// same way in the base scaffold the context is the base context (the signature is then the one
// the base family gives); else, if they fail with only the kind of the type the reference goes
// into changed, it is "base into=dim=kind"; else the full variant name.
func sigCtx(q *Program, same func(*Outcome) bool) string {
	base, suffix := splitVariant(q.Ctx)
	if suffix == "" {
		return q.Ctx
	}
	t := *q
	t.Ctx = base
	if _, k, ok := parseVariant(q.Ctx); ok && k["v"] != "" {
		// the base scaffold's viewed type is RT
		t = *t.withCalls(renameInCalls(q.enumerated(), func(a *Arg) {
			if a.K == "ut" && a.S == "VRT" {
				a.S = "RT"
			}
		}))
	}
	if same(rerun(&t)) {
		return base
	}
	t = *q
	if _, k, ok := parseVariant(q.Ctx); ok && q.Dangling != "" {
		if dim := templateDim(q.Dangling, base); dim != "" && k[dim] != "" {
			into := base + " into=" + dim + "=" + k[dim]
			if len(k) == 1 {
				return into
			}
			t.Ctx = variantName(base, map[string]string{dim: k[dim]})
			if same(rerun(&t)) {
				return into
			}
		}
	}
	return base + " env=" + suffix
}

// judge applies the oracle to one executed program and returns its violations (none for the
// overwhelming majority of programs).
func judge(p *Program, out *Outcome) []Viol {
	switch {
	case out.Class == "panic":
		if out.Kind == "HARNESS" {
			return []Viol{{Sig: "HARNESS", What: out.Msg, Prog: p, Min: p, Src: p.Source()}}
		}
		site, kind := out.Site, out.Kind
		same := func(o *Outcome) bool { return o.Class == "panic" && o.Site == site && o.Kind == kind }
		q, o := minimise(p, out, same, nil)
		q, o = canonicalise(q, o, same)
		what := fmt.Sprintf("evaluation panicked (%s) in %s during phase %s; program: %s", o.Msg, o.Site, o.Phase, q.Source())
		if usesFailedResultType(q.enumerated()) {
			// one root cause per site: the value ResultType() returns after reporting an error (a
			// nil *expr.ResultTypeExpr) is used as a data type and reaches a method that
			// dereferences it
			sig := fmt.Sprintf("panic arg=failed-resulttype site=%s kind=%s", o.Site, o.Kind)
			return []Viol{{Sig: sig, What: what, Prog: p, Min: q, Src: q.Source()}}
		}
		var sig string
		if o.InHole && len(o.HolePath) > 0 {
			// the panic happened while an enumerated DSL call was executing
			ctx := o.CurType
			if q.Ctx == "" {
				ctx = "toplevel"
			} else if q.Ctx == "top" {
				ctx = "*"
			} else {
				t := *q
				t.Ctx = "top"
				if same(rerun(&t)) {
					ctx = "*" // also panics when called at the top level: independent of the context
				}
			}
			args := o.outermost.argClass()
			sig = fmt.Sprintf("panic fn=%s args=%s ctx=%s site=%s kind=%s", strings.Join(o.HolePath, ">"), args, ctx, o.Site, o.Kind)
		} else {
			// the panic happened in an engine phase (or in a scaffold call) after the enumerated
			// calls returned: the locus is the site, the context is the scaffold
			ctx := q.Ctx
			if ctx == "" {
				ctx = "toplevel"
			}
			fn := "(" + o.Phase + ")"
			if o.culprit != nil {
				fn = "(" + o.Phase + " scaffold " + o.culprit.Fn + ")"
			}
			if ctx != "toplevel" {
				ctx = sigCtx(q, same)
			}
			sig = fmt.Sprintf("panic fn=%s ctx=%s site=%s kind=%s", fn, ctx, o.Site, o.Kind)
		}
		return []Viol{{Sig: sig, What: what, Prog: p, Min: q, Src: q.Source()}}
	case out.Class == "rejected" && out.Bad != "":
		kind := out.BadKind
		same := func(o *Outcome) bool { return o.Class == "rejected" && o.BadKind == kind }
		q, o := minimise(p, out, same, nil)
		sig := fmt.Sprintf("bad-error defect=%s calls=%s ctx=%s", kind, describe(q.enumerated()), o.HoleType)
		what := fmt.Sprintf("rejected, but %s; program: %s", o.Bad, q.Source())
		return []Viol{{Sig: sig, What: what, Prog: p, Min: q, Src: q.Source()}}
	case out.Class == "accepted" && p.Unmet != "":
		sig := "requirement-accepted " + p.Unmet
		what := fmt.Sprintf("design accepted although a security requirement names a scheme whose credential attribute the payload does not define (%s); program: %s", p.Unmet, p.Source())
		return []Viol{{Sig: sig, What: what, Prog: p, Min: p, Src: p.Source()}}
	case out.Class == "accepted" && p.Dangling != "" && (out.HasZZ || p.Strict):
		strict := p.Strict
		same := func(o *Outcome) bool { return o.Class == "accepted" && (o.HasZZ || strict) }
		q, _ := minimise(p, out, same, mentionsZZ)
		var comp []Call
		var ref []Call
		for _, c := range q.enumerated() {
			if mentionsZZ(c) {
				ref = append(ref, c)
			} else {
				comp = append(comp, c)
			}
		}
		with := "none"
		if len(comp) > 0 {
			with = describe(comp)
		}
		sig := fmt.Sprintf("dangling-accepted ref=%s call=%s pos=%s ctx=%s with=%s", p.Dangling, describe(ref), zzPosition(q.enumerated()), sigCtx(q, same), with)
		kept := "the accepted design still mentions the name"
		if !out.HasZZ {
			kept = "the reference was silently dropped from the accepted design"
		}
		what := fmt.Sprintf("design accepted although it refers to %q (%s) which the program never defines (%s); program: %s", zz, p.Dangling, kept, q.Source())
		return []Viol{{Sig: sig, What: what, Prog: p, Min: q, Src: q.Source()}}
	}
	return nil
}

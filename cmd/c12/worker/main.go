package main

import (
	"bufio"
	"encoding/binary"
	"encoding/hex"
	"encoding/json"
	"flag"
	"fmt"
	"io"
	"os"
	"runtime"
	"runtime/debug"
	"runtime/metrics"
	"runtime/pprof"
	"sort"
	"strconv"
	"strings"
	"sync/atomic"
	"time"
)

func fatalf(format string, a ...any) {
	fmt.Fprintf(os.Stderr, "C12-WORKER-ERROR "+format+"\n", a...)
	os.Exit(2)
}

// JobResult is the aggregated outcome of programs [From,To) of block B.
type JobResult struct {
	B        int              `json:"b"`
	From     int              `json:"from"`
	To       int              `json:"to"`
	Acc      int64            `json:"acc"`
	Rej      int64            `json:"rej"`
	Pan      int64            `json:"pan"`
	Extra    int64            `json:"extra"` // re-executions for minimisation and context probes
	Bits     string           `json:"bits"`  // hex bitset: program j-From is non-trivial
	FirstAcc int              `json:"first_acc"`
	Reps     map[string]int   `json:"reps,omitempty"` // outcome class -> smallest j
	Outcomes map[string]int64 `json:"outcomes"`
	Viols    map[string]*VC   `json:"viols,omitempty"`
	Sample   string           `json:"sample,omitempty"`
	Slowest  float64          `json:"slowest_ms"`
}

// VC is a violation class inside a job: first (smallest j) example and count.
type VC struct {
	N int64 `json:"n"`
	J int   `json:"j"`
	V Viol  `json:"v"`
}

var (
	curStart atomic.Int64 // unix nanos when the current program started, 0 when idle
	curB     atomic.Int64
	curJ     atomic.Int64
)

// watchdog ends the process when one program runs longer than limit or the heap explodes;
// the driver then re-executes the program named in the progress file in a fresh process under
// the 60 s watchdog before believing anything.
func watchdog(limit time.Duration, memLimit uint64) {
	sample := []metrics.Sample{{Name: "/memory/classes/heap/objects:bytes"}}
	for {
		time.Sleep(100 * time.Millisecond)
		if s := curStart.Load(); s != 0 && time.Since(time.Unix(0, s)) > limit {
			fmt.Fprintf(os.Stderr, "C12-WATCHDOG timeout b=%d j=%d limit=%s\n", curB.Load(), curJ.Load(), limit)
			os.Exit(3)
		}
		metrics.Read(sample)
		if sample[0].Value.Uint64() > memLimit {
			fmt.Fprintf(os.Stderr, "C12-WATCHDOG memory b=%d j=%d heap=%d\n", curB.Load(), curJ.Load(), sample[0].Value.Uint64())
			os.Exit(4)
		}
	}
}

func outcomeClass(o *Outcome) string {
	switch o.Class {
	case "accepted":
		return "accepted"
	case "rejected":
		if o.Trivial {
			return "rejected (context mismatch only)"
		}
		return "rejected"
	}
	return "panic " + o.Site
}

func repClass(o *Outcome) string {
	switch o.Class {
	case "accepted":
		return "accepted"
	case "rejected":
		return "rej:" + normalise(o.FirstErr)
	}
	return "panic:" + o.Site + ":" + o.Kind
}

func serve(blocks []block, progress *os.File, wantReps bool) {
	in := bufio.NewScanner(os.Stdin)
	in.Buffer(make([]byte, 1<<20), 1<<20)
	w := bufio.NewWriter(os.Stdout)
	enc := json.NewEncoder(w)
	var pbuf [16]byte
	for in.Scan() {
		f := strings.Fields(in.Text())
		if len(f) < 3 {
			continue
		}
		b, _ := strconv.Atoi(f[0])
		from, _ := strconv.Atoi(f[1])
		to, _ := strconv.Atoi(f[2])
		skip := map[int]bool{}
		if len(f) > 3 {
			for _, s := range strings.Split(f[3], ",") {
				if n, err := strconv.Atoi(s); err == nil {
					skip[n] = true
				}
			}
		}
		if b < 0 || b >= len(blocks) || from < 0 || to > blocks[b].N {
			fatalf("bad job %q", in.Text())
		}
		blk := blocks[b]
		res := &JobResult{B: b, From: from, To: to, FirstAcc: -1, Outcomes: map[string]int64{}}
		if wantReps {
			res.Reps = map[string]int{}
		}
		bits := make([]byte, (to-from+7)/8)
		extraRuns = 0
		curB.Store(int64(b))
		for j := from; j < to; j++ {
			if skip[j] {
				continue
			}
			p := blk.at(j)
			if progress != nil {
				binary.LittleEndian.PutUint64(pbuf[0:], uint64(b))
				binary.LittleEndian.PutUint64(pbuf[8:], uint64(j))
				progress.WriteAt(pbuf[:], 0)
			}
			curJ.Store(int64(j))
			t0 := time.Now()
			curStart.Store(t0.UnixNano())
			out := run(p)
			viols := judge(p, out)
			curStart.Store(0)
			if ms := float64(time.Since(t0).Microseconds()) / 1000; ms > res.Slowest {
				res.Slowest = ms
			}
			switch out.Class {
			case "accepted":
				res.Acc++
				if res.FirstAcc < 0 {
					res.FirstAcc = j
				}
			case "rejected":
				res.Rej++
			default:
				res.Pan++
			}
			if !(out.Class == "rejected" && out.Trivial) {
				bits[(j-from)/8] |= 1 << uint((j-from)%8)
			}
			res.Outcomes[outcomeClass(out)]++
			if wantReps {
				rc := repClass(out)
				if _, ok := res.Reps[rc]; !ok {
					res.Reps[rc] = j
				}
			}
			for _, v := range viols {
				if res.Viols == nil {
					res.Viols = map[string]*VC{}
				}
				if vc, ok := res.Viols[v.Sig]; ok {
					vc.N++
				} else {
					res.Viols[v.Sig] = &VC{N: 1, J: j, V: v}
				}
			}
			if j == from {
				res.Sample = p.Source()
			}
		}
		res.Extra = extraRuns
		res.Bits = hex.EncodeToString(bits)
		if err := enc.Encode(res); err != nil {
			fatalf("encode: %v", err)
		}
		w.Flush()
	}
}

type fnDescr struct {
	Name      string `json:"name"`
	Signature string `json:"signature"`
	Vectors   int    `json:"vectors"`
}

func main() {
	mode := flag.String("mode", "info", "info | blocks | serve | single | at | selftest")
	fam := flag.String("family", "d1", "program family")
	selPath := flag.String("sel", "", "selection file (deeper families)")
	progressPath := flag.String("progress", "", "file receiving (block, j) of the program being executed")
	limit := flag.Duration("watchdog", 20*time.Second, "per-program time limit")
	menus := flag.String("menus", "full", "full | quick: quick offers only the six most common values in two-argument variadic tails")
	bi := flag.Int("b", 0, "block (mode at)")
	ji := flag.Int("j", 0, "index in block (mode at)")
	cpuprof := flag.String("cpuprofile", "", "write a CPU profile (development)")
	flag.Parse()
	if *cpuprof != "" {
		f, _ := os.Create(*cpuprof)
		pprof.StartCPUProfile(f)
		defer pprof.StopCPUProfile()
	}

	debug.SetMaxStack(16 << 20) // runaway recursion dies quickly instead of eating 1 GB (goa needs a few KB)
	debug.SetGCPercent(200)
	runtime.GOMAXPROCS(2)
	quickMenus = *menus == "quick"
	initFuncs(Table)
	go watchdog(*limit, 6<<30)

	var sel *Selection
	if *selPath != "" {
		sel = loadSelection(*selPath)
	}
	out := json.NewEncoder(os.Stdout)
	switch *mode {
	case "info":
		var fns []fnDescr
		for _, n := range fnOrder {
			fns = append(fns, fnDescr{n, funcs[n].T.String(), funcs[n].n})
		}
		var tpl []string
		for _, t := range danglingTemplates() {
			tpl = append(tpl, t.ctx+": "+strings.TrimPrefix((&Program{Ctx: t.ctx, Hole: t.hole()}).Source(), "["+t.ctx+"] ")+" ["+t.id+"]")
		}
		out.Encode(map[string]any{"functions": fns, "contexts": contextOrder, "relevant_contexts": relevantContexts,
			"dangling_templates": tpl, "referred_type_kinds": refKindInfo(), "requirement_credential_family": credInfo(), "menus": map[string]int{"string": len(strMenu), "int": len(intMenu), "func": len(funcMenu), "any": len(menuFor(anyType()))}})
	case "blocks":
		out.Encode(familyByName(*fam, sel))
	case "serve":
		var pf *os.File
		if *progressPath != "" {
			var err error
			pf, err = os.OpenFile(*progressPath, os.O_CREATE|os.O_RDWR, 0o644)
			if err != nil {
				fatalf("progress: %v", err)
			}
		}
		serve(familyByName(*fam, sel), pf, *fam == "d1")
	case "at":
		blocks := familyByName(*fam, sel)
		if *bi < 0 || *bi >= len(blocks) || *ji < 0 || *ji >= blocks[*bi].N {
			fatalf("no program %d/%d in family %s", *bi, *ji, *fam)
		}
		out.Encode(blocks[*bi].at(*ji))
	case "single":
		var p Program
		b, _ := io.ReadAll(os.Stdin)
		if err := json.Unmarshal(b, &p); err != nil {
			fatalf("program: %v", err)
		}
		if p.Ctx != "" {
			if _, ok := scaffoldFor(p.Ctx); !ok {
				fatalf("unknown context %q", p.Ctx)
			}
		}
		curStart.Store(time.Now().UnixNano())
		wantStack = true
		o := run(&p)
		wantStack = false
		viols := judge(&p, o)
		curStart.Store(0)
		out.Encode(map[string]any{"outcome": o, "viols": viols, "source": p.Source(), "full_source": p.FullSource()})
	case "describe":
		var p Program
		b, _ := io.ReadAll(os.Stdin)
		if err := json.Unmarshal(b, &p); err != nil {
			fatalf("program: %v", err)
		}
		out.Encode(map[string]any{"describe": describe(p.enumerated()), "source": p.Source(), "full_source": p.FullSource(), "ncalls": len(p.enumerated())})
	case "selftest":
		selftest()
	default:
		fatalf("unknown mode %q", *mode)
	}
}

func selftest() {
	ok := true
	fail := func(format string, a ...any) {
		ok = false
		fmt.Printf("SELFTEST-FAIL "+format+"\n", a...)
	}
	// 1. every scaffold with an empty hole is a valid design
	for _, ctx := range append(append([]string{}, contextOrder...), extraContexts...) {
		o := run(&Program{Ctx: ctx})
		if o.Class != "accepted" {
			fail("scaffold %s with an empty hole is %s: %s %s", ctx, o.Class, o.FirstErr, o.Msg)
		}
		if o.HoleType == "" {
			fail("scaffold %s: hole never reached", ctx)
		}
	}
	// 1b. so is every scaffold variant of the referred-type-kind dimension
	for _, ctx := range allVariants() {
		o := run(&Program{Ctx: ctx})
		if o.Class != "accepted" {
			fail("scaffold variant %s with an empty hole is %s: %s %s", ctx, o.Class, o.FirstErr, o.Msg)
		}
		if o.HoleType == "" {
			fail("scaffold variant %s: hole never reached", ctx)
		}
	}
	names := make([]string, 0, len(scaffolds))
	for n := range scaffolds {
		names = append(names, n)
	}
	sort.Strings(names)
	if len(names) != len(contextOrder)+len(extraContexts) {
		fail("contextOrder + extraContexts list %d contexts, scaffolds has %d", len(contextOrder)+len(extraContexts), len(names))
	}
	// 2. state is fresh: an outcome does not depend on what ran before
	probe := []*Program{
		{Ctx: "method+http", Hole: []Call{C("Error", S("x"))}},
		{Ctx: "http-endpoint", Hole: []Call{C("Response", S("a"), I(400))}},
		{Ctx: "grpc-endpoint", Hole: []Call{C("Response", S("a"), I(5))}},
		{Ctx: "type", Hole: []Call{C("Extend", UT("a"))}},
		{Top: []Call{C("Type", S("r1"), F(C("Attribute", S("f"), S("r1"))))}},
	}
	var alone []string
	for _, p := range probe {
		o := run(p)
		b, _ := json.Marshal(o)
		alone = append(alone, string(b))
	}
	for i := len(probe) - 1; i >= 0; i-- {
		for _, q := range probe {
			run(q)
		}
		o := run(probe[i])
		b, _ := json.Marshal(o)
		if string(b) != alone[i] {
			fail("outcome of %s depends on history: %s vs %s", probe[i].Source(), alone[i], b)
		}
	}
	if ok {
		fmt.Println("SELFTEST-OK")
	} else {
		os.Exit(1)
	}
}

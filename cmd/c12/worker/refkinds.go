package main

import (
	"sort"
	"strings"
)

// ---- the "kind of the type being referred into" dimension of the dangling family ----
//
// A transport mapping, a requirement or a view refers INTO a type: the method payload (request
// headers, cookies, params, path params, body, MapParams, gRPC message / metadata), the method
// result (response headers, cookies, body, tag, gRPC headers / trailers / message), the type of
// an error (error response headers / body), the type a Required / view attribute list belongs
// to, or the result type a View(name) selects a view of. The base scaffolds fix one kind for
// each of them (payload: inline object; result: result type RT over HTTP, inline object over
// gRPC; error: the built-in ErrorResult; the list's own type: plain attributes; viewed type:
// RT). A scaffold VARIANT "base@dim=kind,dim=kind" replaces the kinds named in its suffix; the
// dimensions are p (payload), r (result), e (error type), t (the type the hole belongs to) and
// v (the viewed result type). Every object-like kind has attributes a (String) and b (Int) and
// never the dangling name, so the templates of the base context apply unchanged. With a kind
// that is not object-like (primitive, alias of a primitive, array, map, collection) a mapping
// name does not refer to an attribute (the whole value is mapped), so those variants are run
// under the crash / located-error oracle only.

type refKind struct {
	name   string
	object bool // a name in a mapping refers to an attribute of this type
	// defs are the top-level definitions the kind needs; x is the role prefix ("Pay", "Res", "Err")
	defs func(x string, grpc bool) []Call
	// args describe the type in Payload(args...), Result(args...), Error("a", args...)
	args func(x string, grpc bool) []Arg
}

func kAttr(grpc bool, n int, name, typ string) Call {
	if grpc {
		return C("Field", I(n), S(name), DT(typ))
	}
	return C("Attribute", S(name), DT(typ))
}

// kAttrInherit: attribute declared without a type (it inherits from the Reference type)
func kAttrInherit(grpc bool, n int, name string) Call {
	if grpc {
		return C("Field", I(n), S(name))
	}
	return C("Attribute", S(name))
}

func kAB(grpc bool) []Call { return []Call{kAttr(grpc, 1, "a", "String"), kAttr(grpc, 2, "b", "Int")} }

func kTypeAB(name string, grpc bool) Call { return C("Type", S(name), F(kAB(grpc)...)) }
func kTypeA(name string, grpc bool) Call {
	return C("Type", S(name), F(kAttr(grpc, 1, "a", "String")))
}

func kResultType(name string, body ...Call) Call {
	return C("ResultType", S("application/vnd."+strings.ToLower(name)), S(name), F(body...))
}

func kViews() []Call {
	return []Call{
		C("View", S("default"), F(C("Attribute", S("a")), C("Attribute", S("b")))),
		C("View", S("a"), F(C("Attribute", S("a")))),
	}
}

func noDefs(string, bool) []Call { return nil }

// refKinds is the menu of kinds, simplest first. Not every kind is offered for every role: see
// kindsFor.
var refKinds = []refKind{
	{"object", true, noDefs, func(x string, g bool) []Arg { return []Arg{F(kAB(g)...)} }},
	{"type", true,
		func(x string, g bool) []Call { return []Call{kTypeAB(x+"T", g)} },
		func(x string, g bool) []Arg { return []Arg{UT(x + "T")} }},
	{"resulttype", true,
		func(x string, g bool) []Call {
			return []Call{kResultType(x+"RT", with([]Call{C("Attributes", F(kAB(g)...))}, kViews()...)...)}
		},
		func(x string, g bool) []Arg { return []Arg{UT(x + "RT")} }},
	// a user type that inherits attribute a from the type it extends and declares b itself
	{"extends", true,
		func(x string, g bool) []Call {
			return []Call{kTypeA(x+"Base", g), C("Type", S(x+"Ext"), F(C("Extend", UT(x+"Base")), kAttr(g, 2, "b", "Int")))}
		},
		func(x string, g bool) []Arg { return []Arg{UT(x + "Ext")} }},
	// a result type that inherits a from a user type and declares b and its views itself
	{"rt-extends", true,
		func(x string, g bool) []Call {
			return []Call{kTypeA(x+"Base", g), kResultType(x+"RTExt",
				with([]Call{C("Extend", UT(x+"Base")), C("Attributes", F(kAttr(g, 2, "b", "Int")))}, kViews()...)...)}
		},
		func(x string, g bool) []Arg { return []Arg{UT(x + "RTExt")} }},
	// an inline object that extends a user type
	{"object-extends", true,
		func(x string, g bool) []Call { return []Call{kTypeA(x+"Base", g)} },
		func(x string, g bool) []Arg { return []Arg{F(C("Extend", UT(x+"Base")), kAttr(g, 2, "b", "Int"))} }},
	// an inline object whose attributes take their types from a Reference type
	{"references", true,
		func(x string, g bool) []Call { return []Call{kTypeAB(x+"T", g)} },
		func(x string, g bool) []Arg {
			return []Arg{F(C("Reference", UT(x+"T")), kAttrInherit(g, 1, "a"), kAttrInherit(g, 2, "b"))}
		}},
	// a user type given together with an overriding DSL
	{"type+dsl", true,
		func(x string, g bool) []Call { return []Call{kTypeAB(x+"T", g)} },
		func(x string, g bool) []Arg { return []Arg{UT(x + "T"), F(C("Required", S("a")))} }},
	// a user type that is an alias of another user type
	{"alias", true,
		func(x string, g bool) []Call { return []Call{kTypeAB(x+"T", g), C("Type", S(x+"Alias"), UT(x+"T"))} },
		func(x string, g bool) []Arg { return []Arg{UT(x + "Alias")} }},
	// kinds without attributes: the whole value is mapped
	{"primitive", false, noDefs, func(string, bool) []Arg { return []Arg{DT("String")} }},
	{"alias-primitive", false,
		func(x string, g bool) []Call { return []Call{C("Type", S(x+"S"), DT("String"))} },
		func(x string, g bool) []Arg { return []Arg{UT(x + "S")} }},
	{"array", false, noDefs, func(string, bool) []Arg { return []Arg{CallArg(C("ArrayOf", DT("String")))} }},
	{"map", false, noDefs, func(string, bool) []Arg { return []Arg{CallArg(C("MapOf", DT("String"), DT("String")))} }},
	{"collection", false,
		func(x string, g bool) []Call {
			return []Call{kResultType(x+"RT", with([]Call{C("Attributes", F(kAB(g)...))}, kViews()...)...)}
		},
		func(x string, g bool) []Arg { return []Arg{CallArg(C("CollectionOf", UT(x+"RT")))} }},
}

func kindByName(name string) *refKind {
	for i := range refKinds {
		if refKinds[i].name == name {
			return &refKinds[i]
		}
	}
	return nil
}

// excludedKinds: (dimension, transport) pairs for which a kind is not offered, with the reason.
// Everything else in refKinds is offered; the worker self-test checks that every variant
// scaffold with an empty hole is a design goa accepts.
func kindOffered(dim string, grpc bool, k *refKind) bool {
	switch {
	case dim == "p" && k.name == "object":
		return false // the base kind
	case dim == "r" && grpc && k.name == "object":
		return false // the base kind
	case k.name == "collection" && dim != "r":
		return false // a collection is a result
	case grpc && !k.object:
		// gRPC messages are objects: goa wraps a primitive / array / map payload or result in a
		// message itself and nothing can be mapped by name; error types over gRPC likewise
		return false
	}
	return true
}

// ---- scaffold variants ----

type variantSpec struct {
	dims  []string // canonical order
	grpc  bool
	build func(k map[string]string) []Call
	kinds map[string][]string // dim -> offered non-base kinds, menu order
}

var variantSpecs = map[string]*variantSpec{}

// drop removes kinds from the menu of one dimension of one context (with the reason stated at
// the call).
func (s *variantSpec) drop(dim string, kinds ...string) {
	var keep []string
	for _, k := range s.kinds[dim] {
		dropped := false
		for _, d := range kinds {
			dropped = dropped || d == k
		}
		if !dropped {
			keep = append(keep, k)
		}
	}
	s.kinds[dim] = keep
}

// env is the (payload, result, error type) environment of a service scaffold.
type env struct {
	k    map[string]string
	grpc bool
}

func (v env) defs() []Call {
	var out []Call
	seen := map[string]bool{}
	for _, d := range [][2]string{{"p", "Pay"}, {"r", "Res"}, {"e", "Err"}} {
		if kn := v.k[d[0]]; kn != "" {
			for _, c := range kindByName(kn).defs(d[1], v.grpc) {
				if n := c.Args[0].S; !seen[n] {
					seen[n] = true
					out = append(out, c)
				}
			}
		}
	}
	return out
}

func (v env) payload() Call {
	if kn := v.k["p"]; kn != "" {
		return C("Payload", kindByName(kn).args("Pay", v.grpc)...)
	}
	if v.grpc {
		return payloadGRPC()
	}
	return payloadHTTP()
}

func (v env) result() Call {
	if kn := v.k["r"]; kn != "" {
		return C("Result", kindByName(kn).args("Res", v.grpc)...)
	}
	if v.grpc {
		return resultGRPC()
	}
	return C("Result", UT("RT"))
}

func (v env) errDecl() Call {
	if kn := v.k["e"]; kn != "" {
		return C("Error", append([]Arg{S("a")}, kindByName(kn).args("Err", v.grpc)...)...)
	}
	return C("Error", S("a"))
}

// transport mapping of the method of a scaffold whose hole is not in the endpoint
func (v env) transport() Call {
	if v.grpc {
		return C("GRPC", F())
	}
	return httpGET()
}

func envSpec(grpc bool, build func(v env) []Call) *variantSpec {
	s := &variantSpec{dims: []string{"p", "r", "e"}, grpc: grpc, kinds: map[string][]string{}}
	s.build = func(k map[string]string) []Call {
		v := env{k, grpc}
		return with(v.defs(), build(v)...)
	}
	for _, d := range s.dims {
		for i := range refKinds {
			if kindOffered(d, grpc, &refKinds[i]) {
				s.kinds[d] = append(s.kinds[d], refKinds[i].name)
			}
		}
	}
	return s
}

func httpEndpointV(v env, route string, body ...Call) []Call {
	return svc(method(v.payload(), v.result(), v.errDecl(),
		C("HTTP", F(with([]Call{C(route, S("/"))}, body...)...))))
}

func grpcEndpointV(v env, body ...Call) []Call {
	return svc(method(v.payload(), v.result(), v.errDecl(), C("GRPC", F(body...))))
}

// selfKinds: kinds of the type a Required / view attribute list (the hole) belongs to
var selfKinds = map[string][]string{
	"type":          {"extends", "references"},
	"payload":       {"extends", "references", "type+dsl", "resulttype+dsl", "extends+dsl"},
	"result":        {"extends", "references", "type+dsl", "resulttype+dsl", "extends+dsl"},
	"resulttype":    {"extends", "references"},
	"rt-attributes": {"extends", "references"},
	"view":          {"extends", "references"},
}

// viewKinds: kinds of the result type whose view a View(name) call selects. All define the
// type VRT with attributes a, b and (except no-views) views default and a.
var viewKinds = []string{"resulttype", "rt-extends", "rt-extends-rt", "rt-references", "no-views"}

func viewDefs(kind string) []Call {
	ab := C("Attributes", F(kAB(false)...))
	switch kind {
	case "resulttype":
		return []Call{kResultType("VRT", with([]Call{ab}, kViews()...)...)}
	case "rt-extends":
		return []Call{kTypeA("VBase", false), kResultType("VRT",
			with([]Call{C("Extend", UT("VBase")), C("Attributes", F(kAttr(false, 2, "b", "Int")))}, kViews()...)...)}
	case "rt-extends-rt":
		return []Call{kResultType("VRT", with([]Call{C("Extend", UT("RT")), C("Attributes", F(C("Attribute", S("c"), DT("String"))))}, kViews()...)...)}
	case "rt-references":
		return []Call{kResultType("VRT", with([]Call{C("Reference", UT("RT")), C("Attributes", F(C("Attribute", S("a")), C("Attribute", S("b"))))}, kViews()...)...)}
	case "no-views":
		return []Call{kResultType("VRT", ab)}
	}
	panic("c12 worker: unknown view kind " + kind)
}

// selfBody: the DSL of the type the hole belongs to, for a self kind: link + attributes a, b
func selfDefs(kind string) []Call {
	switch kind {
	case "extends":
		return []Call{kTypeA("tbase", false)}
	case "extends+dsl":
		return []Call{kTypeA("tbase", false), C("Type", S("text"), F(C("Extend", UT("tbase")), kAttr(false, 2, "b", "Int")))}
	}
	return nil
}

func selfAttrs(kind string) []Call {
	switch kind {
	case "":
		return attrAB()
	case "extends":
		return []Call{C("Extend", UT("tbase")), kAttr(false, 2, "b", "Int")}
	case "references":
		return []Call{C("Reference", UT("a")), C("Attribute", S("a")), C("Attribute", S("b"))}
	}
	panic("c12 worker: unknown self kind " + kind)
}

// selfTyped: Payload / Result given as (type, DSL with the hole)
func selfTyped(fn, kind string) (Call, bool) {
	switch kind {
	case "type+dsl":
		return C(fn, UT("a"), F(hole)), true
	case "resulttype+dsl":
		return C(fn, UT("RT"), F(hole)), true
	case "extends+dsl":
		return C(fn, UT("text"), F(hole)), true
	}
	return Call{}, false
}

func init() {
	// service scaffolds parameterised by the (payload, result, error type) environment
	variantSpecs["http-endpoint"] = envSpec(false, func(v env) []Call { return httpEndpointV(v, "POST", hole) })
	variantSpecs["http-response"] = envSpec(false, func(v env) []Call { return httpEndpointV(v, "GET", C("Response", I(200), F(hole))) })
	variantSpecs["http-error-response"] = envSpec(false, func(v env) []Call {
		return httpEndpointV(v, "GET", C("Response", S("a"), I(400), F(hole)))
	})
	variantSpecs["http-headers"] = envSpec(false, func(v env) []Call { return httpEndpointV(v, "GET", C("Headers", F(hole))) })
	variantSpecs["http-params"] = envSpec(false, func(v env) []Call { return httpEndpointV(v, "GET", C("Params", F(hole))) })
	variantSpecs["http-body"] = envSpec(false, func(v env) []Call {
		return httpEndpointV(v, "POST", C("Body", F(C("Attribute", S("a")), hole)))
	})
	// a body made of attributes cannot carry an array or a map payload
	variantSpecs["http-body"].drop("p", "array", "map")
	variantSpecs["grpc-endpoint"] = envSpec(true, func(v env) []Call { return grpcEndpointV(v, hole) })
	variantSpecs["grpc-response"] = envSpec(true, func(v env) []Call { return grpcEndpointV(v, C("Response", I(0), F(hole))) })
	variantSpecs["grpc-error-response"] = envSpec(true, func(v env) []Call {
		return grpcEndpointV(v, C("Response", S("a"), I(5), F(hole)))
	})
	variantSpecs["grpc-message"] = envSpec(true, func(v env) []Call { return grpcEndpointV(v, C("Message", F(C("Attribute", S("a")), hole))) })
	variantSpecs["grpc-metadata"] = envSpec(true, func(v env) []Call {
		return grpcEndpointV(v, C("Metadata", F(C("Attribute", S("a")), hole)))
	})
	variantSpecs["method"] = envSpec(false, func(v env) []Call { return svc(method(v.payload(), v.result(), v.errDecl(), hole)) })
	variantSpecs["method+grpc"] = envSpec(true, func(v env) []Call {
		return svc(method(v.payload(), v.result(), v.errDecl(), hole, C("GRPC", F())))
	})
	variantSpecs["service"] = envSpec(false, func(v env) []Call {
		return svc(v.errDecl(), hole, method(v.payload(), v.result(), httpGET()))
	})
	variantSpecs["service-http"] = envSpec(false, func(v env) []Call {
		return svc(v.errDecl(), C("HTTP", F(hole)), method(v.payload(), v.result(), httpGET()))
	})
	variantSpecs["service-grpc"] = envSpec(true, func(v env) []Call {
		return svc(v.errDecl(), C("GRPC", F(hole)), method(v.payload(), v.result(), C("GRPC", F())))
	})
	variantSpecs["api"] = envSpec(false, func(v env) []Call {
		return with(api(v.errDecl(), hole), C("Service", S("s"), F(v.errDecl(), method(v.payload(), v.result(), httpGET()))))
	})
	variantSpecs["api-http"] = envSpec(false, func(v env) []Call {
		return with(api(v.errDecl(), C("HTTP", F(hole))), C("Service", S("s"), F(v.errDecl(), method(v.payload(), v.result(), httpGET()))))
	})
	variantSpecs["api-grpc"] = envSpec(true, func(v env) []Call {
		return with(api(v.errDecl(), C("GRPC", F(hole))), C("Service", S("s"), F(v.errDecl(), method(v.payload(), v.result(), C("GRPC", F())))))
	})

	// method+http: environment and the viewed result type (Result(VRT, func() { View(..) }))
	mh := envSpec(false, func(v env) []Call {
		out := []Call{}
		if vk := v.k["v"]; vk != "" {
			out = viewDefs(vk)
		}
		return with(out, svc(method(v.payload(), v.result(), v.errDecl(), hole, httpGET()))...)
	})
	mh.dims = append(mh.dims, "v")
	mh.kinds["v"] = viewKinds
	variantSpecs["method+http"] = mh

	// type: the kind of type t itself (Required lists) and the viewed type of an attribute
	variantSpecs["type"] = &variantSpec{dims: []string{"t", "v"}, kinds: map[string][]string{"t": selfKinds["type"], "v": viewKinds},
		build: func(k map[string]string) []Call {
			out := selfDefs(k["t"])
			if k["v"] != "" {
				out = with(out, viewDefs(k["v"])...)
			}
			return with(out, typ(with(selfAttrs(k["t"]), hole)...)...)
		}}
	variantSpecs["attr-rt"] = &variantSpec{dims: []string{"v"}, kinds: map[string][]string{"v": viewKinds},
		build: func(k map[string]string) []Call {
			return with(viewDefs(k["v"]), typ(C("Attribute", S("f"), UT("VRT"), F(hole)))...)
		}}
	for _, pr := range [][2]string{{"payload", "Payload"}, {"result", "Result"}} {
		ctx, fn := pr[0], pr[1]
		tr := httpPOST()
		if ctx == "result" {
			tr = httpGET()
		}
		variantSpecs[ctx] = &variantSpec{dims: []string{"t"}, kinds: map[string][]string{"t": selfKinds[ctx]},
			build: func(k map[string]string) []Call {
				if c, ok := selfTyped(fn, k["t"]); ok {
					return with(selfDefs(k["t"]), svc(method(c, tr))...)
				}
				return with(selfDefs(k["t"]), svc(method(C(fn, F(with(selfAttrs(k["t"]), hole)...)), tr))...)
			}}
	}
	dflt := C("View", S("default"), F(C("Attribute", S("a"))))
	variantSpecs["resulttype"] = &variantSpec{dims: []string{"t"}, kinds: map[string][]string{"t": selfKinds["resulttype"]},
		build: func(k map[string]string) []Call {
			return with(selfDefs(k["t"]), rtype(selfRTBody(k["t"], nil, []Call{hole, dflt})...)...)
		}}
	variantSpecs["rt-attributes"] = &variantSpec{dims: []string{"t"}, kinds: map[string][]string{"t": selfKinds["rt-attributes"]},
		build: func(k map[string]string) []Call {
			return with(selfDefs(k["t"]), rtype(selfRTBody(k["t"], []Call{hole}, []Call{dflt})...)...)
		}}
	variantSpecs["view"] = &variantSpec{dims: []string{"t"}, kinds: map[string][]string{"t": selfKinds["view"]},
		build: func(k map[string]string) []Call {
			return with(selfDefs(k["t"]), rtype(selfRTBody(k["t"], nil, []Call{C("View", S("default"), F(C("Attribute", S("a")), hole))})...)...)
		}}
}

// selfRTBody: body of result type T for a self kind: link, Attributes(own attributes + inAttrs), rest
func selfRTBody(kind string, inAttrs, rest []Call) []Call {
	var body []Call
	switch kind {
	case "extends":
		body = []Call{C("Extend", UT("tbase")), C("Attributes", F(with([]Call{kAttr(false, 2, "b", "Int")}, inAttrs...)...))}
	case "references":
		body = []Call{C("Reference", UT("a")), C("Attributes", F(with([]Call{C("Attribute", S("a")), C("Attribute", S("b"))}, inAttrs...)...))}
	default:
		panic("c12 worker: unknown self kind " + kind)
	}
	return with(body, rest...)
}

// variantName renders the canonical name of a scaffold variant (dims in the spec's order,
// base settings omitted); the all-base variant is the base context itself.
func variantName(base string, k map[string]string) string {
	spec := variantSpecs[base]
	var parts []string
	for _, d := range spec.dims {
		if k[d] != "" {
			parts = append(parts, d+"="+k[d])
		}
	}
	if len(parts) == 0 {
		return base
	}
	return base + "@" + strings.Join(parts, ",")
}

func splitVariant(ctx string) (base, suffix string) {
	if i := strings.IndexByte(ctx, '@'); i >= 0 {
		return ctx[:i], ctx[i+1:]
	}
	return ctx, ""
}

func parseVariant(ctx string) (base string, k map[string]string, ok bool) {
	base, suffix := splitVariant(ctx)
	spec := variantSpecs[base]
	if spec == nil || suffix == "" {
		return base, nil, false
	}
	k = map[string]string{}
	for _, p := range strings.Split(suffix, ",") {
		d, kind, found := strings.Cut(p, "=")
		if !found || k[d] != "" {
			return base, nil, false
		}
		valid := false
		for _, kn := range spec.kinds[d] {
			valid = valid || kn == kind
		}
		if !valid {
			return base, nil, false
		}
		k[d] = kind
	}
	if variantName(base, k) != ctx {
		return base, nil, false // not canonical
	}
	return base, k, true
}

var variantCache = map[string][]Call{}

// scaffoldFor returns the scaffold of a base context or of a variant.
func scaffoldFor(ctx string) ([]Call, bool) {
	if sc, ok := scaffolds[ctx]; ok {
		return sc, true
	}
	if sc, ok := variantCache[ctx]; ok {
		return sc, true
	}
	base, k, ok := parseVariant(ctx)
	if !ok {
		return nil, false
	}
	sc := variantSpecs[base].build(k)
	if len(variantCache) > 4096 {
		clear(variantCache)
	}
	variantCache[ctx] = sc
	return sc, true
}

// ---- which type a template refers into ----

// templateDim returns the dimension a dangling template refers into: p, r, e, t, v, or "" when
// the reference is not into a type (security schemes, error names).
func templateDim(id, baseCtx string) string {
	id = strings.TrimSuffix(id, "-in-list")
	switch {
	case strings.HasPrefix(id, "http-request-"), strings.HasPrefix(id, "grpc-request-"), id == "http-route-param", id == "http-map-params":
		return "p"
	case strings.HasPrefix(id, "http-response-"), strings.HasPrefix(id, "grpc-response-"):
		return "r"
	case id == "http-error-response-header", id == "http-error-response-body-attribute":
		return "e"
	case id == "required-attribute":
		switch baseCtx {
		case "http-headers", "http-params", "http-body", "grpc-message", "grpc-metadata":
			return "p"
		}
		return "t"
	case id == "view-attribute":
		return "t"
	case id == "attribute-view", id == "result-view", id == "collection-view":
		return "v"
	}
	return ""
}

// kindIsObject: whether names refer to attributes of a kind of dimension dim ("" = base kind)
func kindIsObject(dim, kind string) bool {
	if kind == "" || dim == "t" || dim == "v" {
		return true
	}
	return kindByName(kind).object
}

// ---- enumeration of variants ----

// reducedKinds: the kinds the dimensions a template does not refer into range over in the
// reduced product (plus the base kind).
var reducedKinds = []string{"type", "resulttype"}

func offered(spec *variantSpec, dim, kind string) bool {
	for _, k := range spec.kinds[dim] {
		if k == kind {
			return true
		}
	}
	return false
}

// variantsOf enumerates the variant contexts of a template of base context ctx that refers
// into dimension dim, all-base excluded, in a fixed order.
//
//	plan "one":     one dimension at a time over its full menu, the others base: the referred
//	                dimension only; for templates that refer into no type each of p, r, e in turn
//	plan "reduced": the referred dimension over its full menu x the other environment
//	                dimensions over {base, type, resulttype}
//	plan "full":    every environment dimension over its full menu
//
// Dimensions t and v are never combined with others: a template that refers into t or v varies
// only that dimension, and no other template varies t or v.
func variantsOf(ctx, dim, plan string) []string {
	spec := variantSpecs[ctx]
	if spec == nil {
		return nil
	}
	has := func(d string) bool {
		for _, x := range spec.dims {
			if x == d {
				return true
			}
		}
		return false
	}
	var out []string
	if dim == "t" || dim == "v" {
		if !has(dim) {
			return nil
		}
		for _, k := range spec.kinds[dim] {
			out = append(out, variantName(ctx, map[string]string{dim: k}))
		}
		return out
	}
	if !has("p") {
		return nil
	}
	envDims := []string{"p", "r", "e"}
	if plan == "one" {
		for _, d := range envDims {
			if dim != "" && d != dim {
				continue
			}
			for _, k := range spec.kinds[d] {
				out = append(out, variantName(ctx, map[string]string{d: k}))
			}
		}
		return out
	}
	menus := make([][]string, len(envDims))
	for i, d := range envDims {
		menus[i] = []string{""}
		if plan == "full" || d == dim {
			menus[i] = append(menus[i], spec.kinds[d]...)
		} else {
			for _, k := range reducedKinds {
				if offered(spec, d, k) {
					menus[i] = append(menus[i], k)
				}
			}
		}
	}
	for _, pk := range menus[0] {
		for _, rk := range menus[1] {
			for _, ek := range menus[2] {
				if pk == "" && rk == "" && ek == "" {
					continue
				}
				out = append(out, variantName(ctx, map[string]string{"p": pk, "r": rk, "e": ek}))
			}
		}
	}
	return out
}

// allVariants lists every variant context the plans of this tier can produce (self-test): the
// reduced product contains the one-at-a-time variants, the full product contains both.
func allVariants() []string {
	plan := "full"
	if quickMenus {
		plan = "reduced"
	}
	seen := map[string]bool{}
	var out []string
	bases := make([]string, 0, len(variantSpecs))
	for b := range variantSpecs {
		bases = append(bases, b)
	}
	sort.Strings(bases)
	for _, b := range bases {
		spec := variantSpecs[b]
		for _, d := range append([]string{""}, spec.dims...) {
			for _, v := range variantsOf(b, d, plan) {
				if !seen[v] {
					seen[v] = true
					out = append(out, v)
				}
			}
		}
	}
	return out
}

// refKindInfo describes the kind dimension for the evidence file.
func refKindInfo() map[string]any {
	var kinds []string
	for _, k := range refKinds {
		n := k.name
		if !k.object {
			n += " (no attributes: crash / located-error oracle only)"
		}
		kinds = append(kinds, n)
	}
	menus := map[string]any{}
	for base, spec := range variantSpecs {
		m := map[string][]string{}
		for _, d := range spec.dims {
			m[d] = spec.kinds[d]
		}
		menus[base] = m
	}
	return map[string]any{
		"dimensions":             "p = method payload, r = method result, e = type of error a, t = the type the hole (Required / view attribute list) belongs to, v = the result type a View(name) selects from",
		"kinds_p_r_e":            kinds,
		"reduced_kinds":          reducedKinds,
		"menus_per_context":      menus,
		"scaffold_variants":      len(allVariants()),
		"variant_name":           "base@dim=kind,... (dimensions left out have the kind of the base scaffold)",
		"control_programs":       "level 1: the dangling name replaced by each existing name (attributes a, b; view / scheme / error a)",
		"signature_context":      "ctx=<base> when the base scaffold fails the same way, ctx=<base> into=<dim>=<kind> when the kind of the type referred into alone decides, else ctx=<base> env=<variant suffix>",
		"templates_by_dimension": templateDimCounts(),
	}
}

func templateDimCounts() map[string]int {
	out := map[string]int{}
	for _, t := range danglingTemplates() {
		d := templateDim(t.id, t.ctx)
		if d == "" {
			d = "none (scheme / error name)"
		}
		out[d]++
	}
	return out
}

package main

import (
	"fmt"
	"strings"
)

// ---- requirement / credential family ----
//
// A security requirement refers, through its scheme, to the payload attribute that carries the
// scheme's credential: Username + Password for basic auth, APIKey(<scheme name>, ...) for an
// API key scheme, Token for JWT, AccessToken for OAuth2. The family enumerates
//
//	transport            HTTP (GET endpoint), gRPC, none (a method without transport mapping)
//	level                the requirement is declared on the method, the service or the API
//	requirement shape    over the schemes {basic sb, apikey k1, apikey k2, jwt sj, oauth2 so}:
//	                     one scheme; every ordered pair in one Security(s1, s2) call; every ordered
//	                     pair as two Security calls
//	payload kind         inline object, user type, result type, type / inline object / result
//	                     type whose credentials are inherited through Extend, object with a
//	                     Reference, user type + overriding DSL, alias of a
//	                     user type; and: no payload at all, primitive payload (no credentials)
//	credentials present  EVERY subset of {Username, Password, APIKey k1, APIKey k2, Token,
//	                     AccessToken} (64): none, exactly the right ones, the right kind for the
//	                     other scheme name, another kind's, partial basic auth, right + extra, ...
//
// Reference model (from the property statement, plain Go): the requirement is unmet when some
// required scheme's credential attributes are not all among the credentials the program puts
// in the payload. An unmet requirement refers to an attribute that does not exist: the design
// must not be accepted. Every program is also under the crash / located-error clauses.

type credential struct {
	tag  string // short name used in keys and signatures
	http func() Call
	grpc func(n int) Call
}

var credentials = []credential{
	{"user", func() Call { return C("Username", S("user"), DT("String")) },
		func(n int) Call { return C("UsernameField", I(n), S("user"), DT("String")) }},
	{"pass", func() Call { return C("Password", S("pass"), DT("String")) },
		func(n int) Call { return C("PasswordField", I(n), S("pass"), DT("String")) }},
	{"key1", func() Call { return C("APIKey", S("k1"), S("key1"), DT("String")) },
		func(n int) Call { return C("APIKeyField", I(n), S("k1"), S("key1"), DT("String")) }},
	{"key2", func() Call { return C("APIKey", S("k2"), S("key2"), DT("String")) },
		func(n int) Call { return C("APIKeyField", I(n), S("k2"), S("key2"), DT("String")) }},
	{"token", func() Call { return C("Token", S("tok"), DT("String")) },
		func(n int) Call { return C("TokenField", I(n), S("tok"), DT("String")) }},
	{"atoken", func() Call { return C("AccessToken", S("atok"), DT("String")) },
		func(n int) Call { return C("AccessTokenField", I(n), S("atok"), DT("String")) }},
}

type credScheme struct {
	name  string
	kind  string
	needs int // bit set over credentials
	def   Call
}

var credSchemes = []credScheme{
	{"sb", "basic", 1<<0 | 1<<1, C("BasicAuthSecurity", S("sb"))},
	{"k1", "apikey", 1 << 2, C("APIKeySecurity", S("k1"))},
	{"k2", "apikey", 1 << 3, C("APIKeySecurity", S("k2"))},
	{"sj", "jwt", 1 << 4, C("JWTSecurity", S("sj"))},
	{"so", "oauth2", 1 << 5, C("OAuth2Security", S("so"), F(C("ImplicitFlow", S("/authorize"), S("/refresh"))))},
}

// sameKindMask: credentials of the same kind as the scheme's (for the "other scheme name" class)
func (s credScheme) sameKindMask() int {
	m := 0
	for _, o := range credSchemes {
		if o.kind == s.kind {
			m |= o.needs
		}
	}
	return m
}

type credReq struct {
	name    string
	schemes []int  // indices into credSchemes
	calls   []Call // the Security calls
}

func credReqs() []credReq {
	var out []credReq
	for i, s := range credSchemes {
		out = append(out, credReq{s.name, []int{i}, []Call{C("Security", S(s.name))}})
	}
	for i, a := range credSchemes {
		for j, b := range credSchemes {
			if i != j {
				out = append(out, credReq{a.name + "+" + b.name, []int{i, j}, []Call{C("Security", S(a.name), S(b.name))}})
			}
		}
	}
	for i, a := range credSchemes {
		for j, b := range credSchemes {
			if i != j {
				out = append(out, credReq{a.name + "," + b.name, []int{i, j}, []Call{C("Security", S(a.name)), C("Security", S(b.name))}})
			}
		}
	}
	return out
}

// unmet applies the reference model: "" when every required scheme finds its credentials in
// the set, else the class of the first unmet scheme (menu order of the requirement).
func (r credReq) unmet(set int) string {
	for _, si := range r.schemes {
		s := credSchemes[si]
		if s.needs&^set == 0 {
			continue
		}
		class := "absent"
		switch {
		case s.needs&set != 0:
			class = "partial"
		case s.sameKindMask()&^s.needs&set != 0:
			class = "other-scheme-name"
		}
		return "scheme=" + s.kind + " credential=" + class
	}
	return ""
}

type credPayload struct {
	name  string
	creds bool // the kind can carry credentials (else only the empty set is enumerated)
	// build returns the top-level definitions and the Payload call (nil: no payload) for the
	// credential calls cr
	build func(grpc bool, cr []Call) (defs []Call, payload *Call)
}

func credBase(grpc bool, cr []Call) Call {
	// the extended type always has one ordinary attribute so that it is never empty
	return C("Type", S("CBase"), F(with([]Call{kAttr(grpc, 9, "c", "String")}, cr...)...))
}

var credPayloads = []credPayload{
	{"object", true, func(g bool, cr []Call) ([]Call, *Call) {
		p := C("Payload", F(with(kAB(g), cr...)...))
		return nil, &p
	}},
	{"type", true, func(g bool, cr []Call) ([]Call, *Call) {
		p := C("Payload", UT("CT"))
		return []Call{C("Type", S("CT"), F(with(kAB(g), cr...)...))}, &p
	}},
	{"resulttype", true, func(g bool, cr []Call) ([]Call, *Call) {
		p := C("Payload", UT("CRT"))
		return []Call{kResultType("CRT", C("Attributes", F(with(kAB(g), cr...)...)))}, &p
	}},
	{"extends", true, func(g bool, cr []Call) ([]Call, *Call) {
		p := C("Payload", UT("CExt"))
		return []Call{credBase(g, cr), C("Type", S("CExt"), F(with([]Call{C("Extend", UT("CBase"))}, kAB(g)...)...))}, &p
	}},
	{"none", false, func(bool, []Call) ([]Call, *Call) { return nil, nil }},
	{"primitive", false, func(bool, []Call) ([]Call, *Call) {
		p := C("Payload", DT("String"))
		return nil, &p
	}},
	// thorough tier
	{"object-extends", true, func(g bool, cr []Call) ([]Call, *Call) {
		p := C("Payload", F(with([]Call{C("Extend", UT("CBase"))}, kAB(g)...)...))
		return []Call{credBase(g, cr)}, &p
	}},
	{"rt-extends", true, func(g bool, cr []Call) ([]Call, *Call) {
		p := C("Payload", UT("CRTExt"))
		return []Call{credBase(g, cr), kResultType("CRTExt", C("Extend", UT("CBase")), C("Attributes", F(kAB(g)...)))}, &p
	}},
	{"references", true, func(g bool, cr []Call) ([]Call, *Call) {
		p := C("Payload", F(with([]Call{C("Reference", UT("a")), kAttrInherit(g, 1, "a"), kAttrInherit(g, 2, "b")}, cr...)...))
		return nil, &p
	}},
	{"type+dsl", true, func(g bool, cr []Call) ([]Call, *Call) {
		p := C("Payload", UT("CT"), F(C("Required", S("a"))))
		return []Call{C("Type", S("CT"), F(with(kAB(g), cr...)...))}, &p
	}},
	{"alias", true, func(g bool, cr []Call) ([]Call, *Call) {
		p := C("Payload", UT("CAlias"))
		return []Call{C("Type", S("CT"), F(with(kAB(g), cr...)...)), C("Type", S("CAlias"), UT("CT"))}, &p
	}},
}

const credQuickPayloads = 6 // the first six payload kinds run in the quick tier

var credLevels = []string{"method", "service", "api"}

// credTransports: HTTP GET endpoint, gRPC endpoint, or a method without any transport mapping
var credTransports = []string{"http", "grpc", "none"}

func credCalls(grpc bool, set int) []Call {
	var out []Call
	for i, c := range credentials {
		if set&(1<<i) != 0 {
			if grpc {
				out = append(out, c.grpc(3+i))
			} else {
				out = append(out, c.http())
			}
		}
	}
	return out
}

func credSetName(set int) string {
	var parts []string
	for i, c := range credentials {
		if set&(1<<i) != 0 {
			parts = append(parts, c.tag)
		}
	}
	if len(parts) == 0 {
		return "none"
	}
	return strings.Join(parts, "+")
}

func credProgram(tr, level string, pk credPayload, req credReq, set int) *Program {
	grpc := tr == "grpc"
	var top []Call
	for _, s := range credSchemes {
		top = append(top, s.def)
	}
	defs, payload := pk.build(grpc, credCalls(grpc, set))
	top = append(top, defs...)
	var mbody []Call
	if payload != nil {
		mbody = append(mbody, *payload)
	}
	if level == "method" {
		mbody = append(mbody, req.calls...)
	}
	switch tr {
	case "grpc":
		mbody = append(mbody, C("GRPC", F()))
	case "http":
		mbody = append(mbody, httpGET())
	}
	var sbody []Call
	if level == "service" {
		sbody = append(sbody, req.calls...)
	}
	sbody = append(sbody, method(mbody...))
	if level == "api" {
		top = append(top, C("API", S("api"), F(req.calls...)))
	}
	top = append(top, C("Service", S("s"), F(sbody...)))
	p := &Program{Top: top}
	if u := req.unmet(set); u != "" {
		p.Unmet = u + " transport=" + tr
	}
	return p
}

// familyCred: one block per (transport, level, payload kind, requirement shape); the programs
// of a block are the credential subsets (all 64, or the empty set for payloads that cannot
// carry credentials).
func familyCred() []block {
	var out []block
	reqs := credReqs()
	payloads := credPayloads
	if quickMenus {
		payloads = payloads[:credQuickPayloads]
	}
	for _, tr := range credTransports {
		for _, level := range credLevels {
			for _, pk := range payloads {
				for _, req := range reqs {
					tr, level, pk, req := tr, level, pk, req
					n := 1
					if pk.creds {
						n = 1 << len(credentials)
					}
					out = append(out, block{Key: fmt.Sprintf("cred/%s/%s/%s/%s", tr, level, pk.name, req.name), N: n,
						at: func(j int) *Program { return credProgram(tr, level, pk, req, j) }})
				}
			}
		}
	}
	return out
}

func credInfo() map[string]any {
	var schemes, creds, pks, reqs []string
	for _, s := range credSchemes {
		schemes = append(schemes, s.name+" ("+s.kind+")")
	}
	for _, c := range credentials {
		creds = append(creds, c.tag)
	}
	for i, p := range credPayloads {
		n := p.name
		if i >= credQuickPayloads {
			n += " (thorough)"
		}
		pks = append(pks, n)
	}
	for _, r := range credReqs() {
		reqs = append(reqs, r.name)
	}
	return map[string]any{"schemes": schemes, "credential_attributes_all_subsets": creds, "payload_kinds": pks,
		"levels": credLevels, "transports": credTransports, "requirement_shapes": reqs,
		"shape_notation": "s = Security(s); s+t = Security(s, t); s,t = Security(s); Security(t)"}
}

// Package main is the C12 worker: it links the goa DSL (through the function table generated
// by the driver from /repo/dsl/*.go), enumerates DSL programs, runs every program through
// goa's evaluation under recover and reports aggregated outcomes as JSON lines. The driver
// (cmd/c12/main.go) copies these sources next to the generated table, builds them and runs
// 16 worker processes in parallel. This directory is also a valid (empty-table) package so
// that `go build ./...` keeps working in /verif.
package main

import (
	"fmt"
	"strconv"
	"strings"
)

// Arg is one argument expression of a DSL call.
//
//	s      string literal S
//	i      int literal I
//	f      float64 literal F
//	nil    untyped nil (the zero value of the parameter type)
//	fn     func() { Body... }   (empty Body = empty function)
//	dt     primitive data type named S ("String", "Int", ...)
//	ut     the user type / result type named S, looked up when the argument is evaluated
//	       (stands for the Go variable a design would hold: `var T = Type("a", ...)`);
//	       nil interface when no such type exists, like the result of a failed Type()
//	failedrt  the value dsl.ResultType returns after it reported an error (too many arguments,
//	       or not at the top level): `var RT = ResultType(...)` of a broken definition, used later
//	call   the result of the nested DSL call Call (ArrayOf(String), MapOf(..), CollectionOf(..))
//	scheme the security scheme named S, by value (`var Basic = BasicAuthSecurity("a")`)
//	strs   []string{S}
//	rnd    expr.NewDeterministicRandomizer()
type Arg struct {
	K    string  `json:"k"`
	S    string  `json:"s,omitempty"`
	I    int     `json:"i,omitempty"`
	F    float64 `json:"f,omitempty"`
	Body []Call  `json:"body,omitempty"`
	Call *Call   `json:"call,omitempty"`
}

// Call is one DSL call. Fn "$HOLE" marks the position of the enumerated calls in a scaffold.
type Call struct {
	Fn   string `json:"fn"`
	Args []Arg  `json:"args,omitempty"`
}

// Program is one DSL program: the scaffold of context Ctx with Hole substituted for the hole
// marker, or (Ctx == "") just the top-level calls Top after the common prelude.
type Program struct {
	Ctx  string `json:"ctx,omitempty"`
	Hole []Call `json:"hole,omitempty"`
	Top  []Call `json:"top,omitempty"`
	// Dangling is non-empty for programs of the dangling-reference family: it names the kind
	// of reference to the never-defined name (const zz) that the program contains.
	Dangling string `json:"dangling,omitempty"`
	// Strict (dangling family): acceptance is a violation by itself, whether or not the accepted
	// design still mentions the name (a reference that is silently dropped is as wrong as one
	// that is kept); set when nothing in the program can replace the referring construct.
	Strict bool `json:"strict,omitempty"`
	// Unmet is non-empty for programs of the requirement / credential family whose security
	// requirement names a scheme whose credential attribute the payload does not have (class of
	// the unmet scheme + transport): acceptance is a violation.
	Unmet string `json:"unmet,omitempty"`
}

const holeFn = "$HOLE"

// ---- construction helpers (used by scaffolds, menus and families) ----

func C(fn string, args ...Arg) Call { return Call{Fn: fn, Args: args} }
func S(s string) Arg                { return Arg{K: "s", S: s} }
func I(i int) Arg                   { return Arg{K: "i", I: i} }
func Fl(f float64) Arg              { return Arg{K: "f", F: f} }
func Nil() Arg                      { return Arg{K: "nil"} }
func F(body ...Call) Arg            { return Arg{K: "fn", Body: body} }
func DT(name string) Arg            { return Arg{K: "dt", S: name} }
func UT(name string) Arg            { return Arg{K: "ut", S: name} }
func CallArg(c Call) Arg            { return Arg{K: "call", Call: &c} }
func Strs(s string) Arg             { return Arg{K: "strs", S: s} }

var hole = Call{Fn: holeFn}

// ---- rendering as Go-like source text (for humans: findings, replays) ----

func (a Arg) render(sb *strings.Builder, hole []Call) {
	switch a.K {
	case "s":
		sb.WriteString(strconv.Quote(a.S))
	case "i":
		sb.WriteString(strconv.Itoa(a.I))
	case "f":
		sb.WriteString(strconv.FormatFloat(a.F, 'g', -1, 64))
	case "nil":
		sb.WriteString("nil")
	case "fn":
		sb.WriteString("func() {")
		renderCalls(sb, a.Body, hole)
		sb.WriteString("}")
	case "dt":
		sb.WriteString(a.S)
	case "ut":
		sb.WriteString("T_" + a.S)
	case "failedrt":
		sb.WriteString(`ResultType("application/vnd.failed", "Failed", func() {}, "extra")`)
	case "call":
		a.Call.render(sb, hole)
	case "scheme":
		sb.WriteString("Scheme_" + a.S)
	case "strs":
		sb.WriteString("[]string{" + strconv.Quote(a.S) + "}")
	case "rnd":
		sb.WriteString("expr.NewDeterministicRandomizer()")
	default:
		sb.WriteString("?" + a.K)
	}
}

func (c Call) render(sb *strings.Builder, hole []Call) {
	if c.Fn == holeFn {
		sb.WriteString("/*hole*/ ")
		renderCalls(sb, hole, nil)
		sb.WriteString(" /*end*/")
		return
	}
	sb.WriteString(c.Fn)
	sb.WriteString("(")
	for i, a := range c.Args {
		if i > 0 {
			sb.WriteString(", ")
		}
		a.render(sb, hole)
	}
	sb.WriteString(")")
}

func renderCalls(sb *strings.Builder, calls []Call, hole []Call) {
	for i, c := range calls {
		if i > 0 {
			sb.WriteString("; ")
		} else {
			sb.WriteString(" ")
		}
		c.render(sb, hole)
	}
	if len(calls) > 0 {
		sb.WriteString(" ")
	}
}

// Source renders only the enumerated part of the program (hole or top calls).
func (p *Program) Source() string {
	var sb strings.Builder
	if p.Ctx != "" {
		fmt.Fprintf(&sb, "[%s]", p.Ctx)
		renderCalls(&sb, p.Hole, nil)
	} else {
		sb.WriteString("[toplevel]")
		renderCalls(&sb, p.Top, nil)
	}
	return strings.TrimSpace(sb.String())
}

// FullSource renders the whole program including prelude and scaffold.
func (p *Program) FullSource() string {
	var sb strings.Builder
	renderCalls(&sb, p.calls(), p.Hole)
	return strings.TrimSpace(sb.String())
}

// calls returns the complete top-level call list of the program (prelude + scaffold or Top).
func (p *Program) calls() []Call {
	out := append([]Call{}, prelude...)
	if p.Ctx != "" {
		sc, ok := scaffoldFor(p.Ctx)
		if !ok {
			panic("c12 worker: unknown context " + p.Ctx)
		}
		return append(out, sc...)
	}
	return append(out, p.Top...)
}

// argClass is the coarse class of an argument used in violation signatures.
func (a Arg) class() string {
	switch a.K {
	case "s":
		if a.S == "" {
			return "emptystr"
		}
		return "str"
	case "i", "f":
		return "num"
	case "nil":
		return "nil"
	case "failedrt":
		return "failedtype"
	case "fn":
		return "fn"
	case "dt", "ut", "call":
		return "type"
	case "scheme":
		return "scheme"
	case "strs":
		return "slice"
	}
	return a.K
}

func (c Call) argClass() string {
	parts := make([]string, len(c.Args))
	for i, a := range c.Args {
		parts[i] = a.class()
	}
	return "(" + strings.Join(parts, ",") + ")"
}

// describe renders a call list as Fn(argclass);Fn(argclass) for signatures.
func describe(calls []Call) string {
	parts := make([]string, len(calls))
	for i, c := range calls {
		parts[i] = c.Fn + c.argClass()
	}
	return strings.Join(parts, ";")
}

package main

import (
	"fmt"
	"reflect"
	"sort"

	"goa.design/goa/v3/expr"
)

// Fn is one entry of the generated DSL function table.
type Fn struct {
	Name string
	V    reflect.Value
}

// quickMenus (quick tier): two-argument variadic tails are the product of the first quickPair
// entries of the element menu instead of the whole menu.
var quickMenus bool

const quickPair = 6

var (
	funcs   = map[string]*fnInfo{}
	fnOrder []string // sorted function names
)

// fnInfo holds the argument menus of one DSL function, built by reflection on its signature.
type fnInfo struct {
	Name     string
	V        reflect.Value
	T        reflect.Type
	fixed    [][]Arg // one menu per fixed parameter
	variadic [][]Arg // argument lists for the variadic tail: none, every single, every ordered pair
	sizes    []int   // odometer sizes: fixed menus then (if variadic) len(variadic)
	n        int     // number of argument vectors = product of sizes
}

// Menus. The first entry of every menu is the "canonical" one so that the all-zero vector of
// the odometer is the most plausible call.
var (
	fnAttr = F(C("Attribute", S("a")))
	fnDesc = F(C("Description", S("d")))

	strMenu   = []Arg{S("a"), S("x"), S(""), S("/{a}"), S("/{x}")}
	namedStr  = map[string][]Arg{"ValidationFormat": {S("date"), S("x"), S("")}, "CookieSameSiteValue": {S("lax"), S("x"), S("")}}
	intMenu   = []Arg{I(200), I(1), I(0), I(-1)}
	floatMenu = []Arg{Fl(1.5), Fl(0), Fl(-1)}
	boolMenu  = []Arg{I(1), I(0)}
	funcMenu  = []Arg{fnAttr, fnDesc, F(), Nil()}
)

// poolItem is a candidate value for interface-typed parameters together with the dynamic
// type it will have.
type poolItem struct {
	arg Arg
	typ reflect.Type // nil for untyped nil
}

var pool = []poolItem{
	{DT("String"), reflect.TypeOf(expr.String)},
	{S("a"), reflect.TypeOf("")},
	{I(1), reflect.TypeOf(0)},
	{fnAttr, reflect.TypeOf(func() {})},
	{UT("a"), reflect.TypeOf(&expr.UserTypeExpr{})},
	{Nil(), nil},
	{UT("RT"), reflect.TypeOf(&expr.ResultTypeExpr{})},
	{CallArg(C("ArrayOf", DT("String"))), reflect.TypeOf(&expr.Array{})},
	{S("x"), reflect.TypeOf("")},
	{Fl(1.5), reflect.TypeOf(1.5)},
	{Strs("a"), reflect.TypeOf([]string{})},
	{Arg{K: "failedrt"}, reflect.TypeOf(&expr.ResultTypeExpr{})},
	{Arg{K: "rnd"}, reflect.TypeOf(expr.NewDeterministicRandomizer())},
}

func menuFor(t reflect.Type) []Arg {
	switch t.Kind() {
	case reflect.String:
		if m, ok := namedStr[t.Name()]; ok {
			return m
		}
		return strMenu
	case reflect.Int, reflect.Int8, reflect.Int16, reflect.Int32, reflect.Int64,
		reflect.Uint, reflect.Uint8, reflect.Uint16, reflect.Uint32, reflect.Uint64:
		return intMenu
	case reflect.Float32, reflect.Float64:
		return floatMenu
	case reflect.Bool:
		return boolMenu
	case reflect.Func:
		if t.NumIn() == 0 && t.NumOut() == 0 {
			return funcMenu
		}
		return []Arg{Nil()}
	case reflect.Interface:
		var out []Arg
		for _, it := range pool {
			if it.typ == nil {
				out = append(out, it.arg)
				continue
			}
			if it.arg.K == "rnd" && t.NumMethod() == 0 {
				continue // a randomizer is only offered where a Randomizer is expected
			}
			if it.typ.Implements(t) {
				out = append(out, it.arg)
			}
		}
		return out
	case reflect.Slice:
		if t.Elem().Kind() == reflect.String {
			return []Arg{Strs("a"), Nil()}
		}
	}
	return []Arg{Nil()} // pointers, structs, ...: only the zero value
}

func initFuncs(table []Fn) {
	for _, f := range table {
		t := f.V.Type()
		fi := &fnInfo{Name: f.Name, V: f.V, T: t}
		nfixed := t.NumIn()
		if t.IsVariadic() {
			nfixed--
		}
		for i := 0; i < nfixed; i++ {
			m := menuFor(t.In(i))
			fi.fixed = append(fi.fixed, m)
			fi.sizes = append(fi.sizes, len(m))
		}
		if t.IsVariadic() {
			m := menuFor(t.In(nfixed).Elem())
			fi.variadic = append(fi.variadic, nil)
			for _, a := range m {
				fi.variadic = append(fi.variadic, []Arg{a})
			}
			pm := m
			if quickMenus && len(m) > quickPair {
				pm = m[:quickPair] // menus are ordered most common first
			}
			for _, a := range pm {
				for _, b := range pm {
					fi.variadic = append(fi.variadic, []Arg{a, b})
				}
			}
			fi.sizes = append(fi.sizes, len(fi.variadic))
		}
		fi.n = 1
		for _, s := range fi.sizes {
			fi.n *= s
		}
		funcs[f.Name] = fi
		fnOrder = append(fnOrder, f.Name)
	}
	sort.Strings(fnOrder)
}

// vector decodes argument vector number v (odometer order, last position fastest).
func (fi *fnInfo) vector(v int) Call {
	if v < 0 || v >= fi.n {
		panic(fmt.Sprintf("c12 worker: vector %d out of range for %s (%d)", v, fi.Name, fi.n))
	}
	idx := make([]int, len(fi.sizes))
	for i := len(fi.sizes) - 1; i >= 0; i-- {
		idx[i] = v % fi.sizes[i]
		v /= fi.sizes[i]
	}
	c := Call{Fn: fi.Name}
	for i, m := range fi.fixed {
		c.Args = append(c.Args, m[idx[i]])
	}
	if fi.variadic != nil {
		c.Args = append(c.Args, fi.variadic[idx[len(idx)-1]]...)
	}
	return c
}

func anyType() reflect.Type { return reflect.TypeOf((*any)(nil)).Elem() }

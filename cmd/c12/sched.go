package main

import (
	"bufio"
	"bytes"
	"encoding/binary"
	"encoding/hex"
	"encoding/json"
	"fmt"
	"io"
	"os"
	"os/exec"
	"path/filepath"
	"regexp"
	"runtime"
	"sort"
	"strconv"
	"strings"
	"sync"
	"time"

	"verif/core"
)

type blockDesc struct {
	Key string `json:"key"`
	N   int    `json:"n"`
}

type viol struct {
	Sig  string          `json:"sig"`
	What string          `json:"what"`
	Prog json.RawMessage `json:"prog"`
	Min  json.RawMessage `json:"min"`
	Src  string          `json:"src"`
}

type violClass struct {
	N int64 `json:"n"`
	J int   `json:"j"`
	V viol  `json:"v"`
}

type jobResult struct {
	B        int                   `json:"b"`
	From     int                   `json:"from"`
	To       int                   `json:"to"`
	Acc      int64                 `json:"acc"`
	Rej      int64                 `json:"rej"`
	Pan      int64                 `json:"pan"`
	Extra    int64                 `json:"extra"`
	Bits     string                `json:"bits"`
	FirstAcc int                   `json:"first_acc"`
	Reps     map[string]int        `json:"reps"`
	Outcomes map[string]int64      `json:"outcomes"`
	Viols    map[string]*violClass `json:"viols"`
	Sample   string                `json:"sample"`
	Slowest  float64               `json:"slowest_ms"`
}

type job struct {
	b, from, to int
	skip        []int
}

// fatal is a program on which a worker process died (stack overflow, watchdog, ...).
type fatal struct {
	fam    string
	b, j   int
	reason string
	site   string
	stderr string
}

type foundViol struct {
	sig, what, src string
	count          int64
	b, j           int // position of the first example (smallest)
	prog, min      json.RawMessage
	fam            string
	fatalKind      string // non-empty for process-level failures
}

type famResult struct {
	name                        string
	blocks                      []blockDesc
	programs, acc, rej, pan     int64
	extra, fatals, fatalsUnconf int64
	outcomes                    map[string]int64
	firstAcc                    []int            // per block, -1 if none
	reps                        []map[string]int // per block (d1 only)
	viols                       map[string]*foundViol
	slowest                     float64
	wall                        float64
	complete                    bool
}

const chunk = 4096

type workerProc struct {
	cmd      *exec.Cmd
	in       io.WriteCloser
	out      *bufio.Reader
	stderr   *bytes.Buffer
	progress string
}

func (h *harness) startServe(fam, sel string, id int) (*workerProc, error) {
	w := &workerProc{stderr: &bytes.Buffer{}, progress: filepath.Join(h.workDir, fmt.Sprintf("progress-%s-%d", fam, id))}
	_ = os.Remove(w.progress)
	args := []string{"-mode", "serve", "-family", fam, "-progress", w.progress}
	if sel != "" {
		args = append(args, "-sel", sel)
	}
	w.cmd = h.cmd(args...)
	w.cmd.Stderr = w.stderr
	in, err := w.cmd.StdinPipe()
	if err != nil {
		return nil, err
	}
	out, err := w.cmd.StdoutPipe()
	if err != nil {
		return nil, err
	}
	w.in, w.out = in, bufio.NewReaderSize(out, 1<<20)
	if err := w.cmd.Start(); err != nil {
		return nil, err
	}
	return w, nil
}

func (w *workerProc) stop() {
	if w == nil {
		return
	}
	w.in.Close()
	done := make(chan struct{})
	go func() { w.cmd.Wait(); close(done) }()
	select {
	case <-done:
	case <-time.After(30 * time.Second):
		w.cmd.Process.Kill()
		<-done
	}
	_ = os.Remove(w.progress)
}

func (w *workerProc) do(j job) (*jobResult, error) {
	line := fmt.Sprintf("%d %d %d", j.b, j.from, j.to)
	if len(j.skip) > 0 {
		parts := make([]string, len(j.skip))
		for i, s := range j.skip {
			parts[i] = strconv.Itoa(s)
		}
		line += " " + strings.Join(parts, ",")
	}
	if _, err := io.WriteString(w.in, line+"\n"); err != nil {
		return nil, err
	}
	type rd struct {
		b   []byte
		err error
	}
	ch := make(chan rd, 1)
	go func() {
		b, err := w.out.ReadBytes('\n')
		ch <- rd{b, err}
	}()
	select {
	case r := <-ch:
		if r.err != nil {
			return nil, r.err
		}
		var res jobResult
		if err := json.Unmarshal(r.b, &res); err != nil {
			return nil, fmt.Errorf("bad result line: %v", err)
		}
		return &res, nil
	case <-time.After(30 * time.Minute):
		w.cmd.Process.Kill()
		return nil, fmt.Errorf("no answer within 30 minutes")
	}
}

var (
	reGoaFrame = regexp.MustCompile(`(?m)^goa\.design/goa/v3/([^\s(]+(?:\([^)]*\))?[^\s(]*)\(.*\n\t\S*/([a-z_0-9]+\.go):\d+`)
	reFatal    = regexp.MustCompile(`(?m)^fatal error: (.*)$`)
)

// classifyCrash reads the reason a worker process died from its exit code and stderr.
func classifyCrash(stderr string) (kind, site string) {
	switch {
	case strings.Contains(stderr, "C12-WORKER-ERROR"):
		return "HARNESS", ""
	case strings.Contains(stderr, "C12-WATCHDOG timeout"):
		return "nontermination", ""
	case strings.Contains(stderr, "C12-WATCHDOG memory"):
		return "memory-runaway", ""
	case strings.Contains(stderr, "stack overflow") || strings.Contains(stderr, "goroutine stack exceeds"):
		kind = "stack-overflow"
	default:
		if m := reFatal.FindStringSubmatch(stderr); m != nil {
			kind = "fatal:" + m[1]
		} else if strings.Contains(stderr, "panic: ") {
			kind = "uncaught-panic"
		} else {
			kind = "process-died"
		}
	}
	short := func(m []string) string {
		fn := m[1]
		pkg := fn
		if i := strings.Index(pkg, "."); i >= 0 {
			pkg = pkg[:i]
		}
		return pkg + "/" + m[2] + ":" + strings.TrimPrefix(fn, pkg+".")
	}
	if kind == "stack-overflow" {
		// Where exactly the stack ran out is arbitrary: the site is the recursion itself, i.e.
		// the goa functions that make up at least a quarter of the innermost frames (the part
		// of the trace before "additional frames elided"), sorted.
		inner := stderr
		if i := strings.Index(inner, "additional frames elided"); i >= 0 {
			inner = inner[:i]
		}
		all := reGoaFrame.FindAllStringSubmatch(inner, -1)
		count := map[string]int{}
		for _, m := range all {
			count[short(m)]++
		}
		var names []string
		for n, k := range count {
			if k*4 >= len(all) {
				names = append(names, n)
			}
		}
		sort.Strings(names)
		return kind, strings.Join(names, "+")
	}
	if m := reGoaFrame.FindStringSubmatch(stderr); m != nil {
		site = short(m)
	}
	return kind, site
}

func readProgress(path string) (b, j int, ok bool) {
	buf, err := os.ReadFile(path)
	if err != nil || len(buf) < 16 {
		return 0, 0, false
	}
	return int(binary.LittleEndian.Uint64(buf[0:])), int(binary.LittleEndian.Uint64(buf[8:])), true
}

func tail(s string, n int) string {
	if len(s) > n {
		return s[len(s)-n:]
	}
	return s
}

// runFamily executes every program of one family over all cores and aggregates the results.
func (h *harness) runFamily(c *core.Ctx, fam, sel string) *famResult {
	t0 := time.Now()
	fr := &famResult{name: fam, outcomes: map[string]int64{}, viols: map[string]*foundViol{}}
	args := []string{"-mode", "blocks", "-family", fam}
	if sel != "" {
		args = append(args, "-sel", sel)
	}
	out, err := h.cmd(args...).Output()
	if err != nil || json.Unmarshal(out, &fr.blocks) != nil {
		c.HarnessError("family %s: cannot list blocks: %v", fam, err)
		return fr
	}
	chunk := chunk
	if strings.HasPrefix(fam, "rec") {
		chunk = 32 // these programs may kill the worker: keep the re-execution after a death small
	}
	fr.firstAcc = make([]int, len(fr.blocks))
	fr.reps = make([]map[string]int, len(fr.blocks))
	var jobs []job
	for b, bl := range fr.blocks {
		fr.firstAcc[b] = -1
		for f := 0; f < bl.N; f += chunk {
			t := f + chunk
			if t > bl.N {
				t = bl.N
			}
			jobs = append(jobs, job{b: b, from: f, to: t})
		}
	}
	// longest first: better balance; the aggregation below does not depend on the order
	sort.SliceStable(jobs, func(i, k int) bool { return jobs[i].to-jobs[i].from > jobs[k].to-jobs[k].from })

	var (
		mu      sync.Mutex
		next    int
		fatals  []fatal
		stopped bool
		samples = map[int]string{} // block -> first program (offered to core in block order)
	)
	merge := func(res *jobResult, bits []byte) {
		mu.Lock()
		defer mu.Unlock()
		fr.acc += res.Acc
		fr.rej += res.Rej
		fr.pan += res.Pan
		fr.extra += res.Extra
		fr.programs += res.Acc + res.Rej + res.Pan
		if res.Slowest > fr.slowest {
			fr.slowest = res.Slowest
		}
		for k, v := range res.Outcomes {
			fr.outcomes[k] += v
		}
		if res.FirstAcc >= 0 && (fr.firstAcc[res.B] < 0 || res.FirstAcc < fr.firstAcc[res.B]) {
			fr.firstAcc[res.B] = res.FirstAcc
		}
		if res.Reps != nil {
			if fr.reps[res.B] == nil {
				fr.reps[res.B] = map[string]int{}
			}
			for k, v := range res.Reps {
				if old, ok := fr.reps[res.B][k]; !ok || v < old {
					fr.reps[res.B][k] = v
				}
			}
		}
		for sig, vc := range res.Viols {
			fv, ok := fr.viols[sig]
			if !ok {
				fv = &foundViol{sig: sig, b: 1 << 30, fam: fam}
				fr.viols[sig] = fv
			}
			fv.count += vc.N
			if res.B < fv.b || (res.B == fv.b && vc.J < fv.j) {
				fv.b, fv.j, fv.what, fv.src, fv.prog, fv.min = res.B, vc.J, vc.V.What, vc.V.Src, vc.V.Prog, vc.V.Min
			}
		}
	}
	nw := runtime.NumCPU()
	if nw > 16 {
		nw = 16
	}
	if nw > len(jobs) {
		nw = len(jobs)
	}
	var wg sync.WaitGroup
	for id := 0; id < nw; id++ {
		wg.Add(1)
		go func(id int) {
			defer wg.Done()
			var w *workerProc
			defer func() { w.stop() }()
			for {
				mu.Lock()
				if next >= len(jobs) || stopped {
					mu.Unlock()
					return
				}
				if c.Expired() {
					stopped = true
					mu.Unlock()
					return
				}
				jb := jobs[next]
				next++
				mu.Unlock()
				for {
					if w == nil {
						var err error
						if w, err = h.startServe(fam, sel, id); err != nil {
							c.HarnessError("family %s: cannot start worker: %v", fam, err)
							return
						}
					}
					res, err := w.do(jb)
					if err == nil {
						bits, _ := hex.DecodeString(res.Bits)
						key := fr.blocks[jb.b].Key + "/"
						skipped := map[int]bool{}
						for _, s := range jb.skip {
							skipped[s] = true
						}
						for j := jb.from; j < jb.to; j++ {
							if skipped[j] {
								continue
							}
							nt := false
							if k := (j - jb.from) / 8; k < len(bits) {
								nt = bits[k]&(1<<uint((j-jb.from)%8)) != 0
							}
							c.State(key+strconv.Itoa(j), nt)
						}
						for cls := range res.Outcomes {
							c.Outcome(cls)
						}
						if res.Sample != "" && jb.from == 0 {
							mu.Lock()
							samples[jb.b] = res.Sample
							mu.Unlock()
						}
						merge(res, bits)
						break
					}
					// the worker process died: find the program it was running
					w.cmd.Wait()
					stderr := w.stderr.String()
					pb, pj, ok := readProgress(w.progress)
					_ = os.Remove(w.progress)
					w = nil
					kind, site := classifyCrash(stderr)
					if kind == "HARNESS" || !ok || pb != jb.b || pj < jb.from || pj >= jb.to {
						c.HarnessError("family %s job %d[%d,%d): worker died (%v) and the culprit cannot be identified: %s", fam, jb.b, jb.from, jb.to, err, tail(stderr, 1500))
						return
					}
					// everything before the culprit ran fine: re-queue the two halves around it
					mu.Lock()
					fatals = append(fatals, fatal{fam: fam, b: pb, j: pj, reason: kind, site: site, stderr: tail(stderr, 4000)})
					if pj > jb.from {
						jobs = append(jobs, job{b: jb.b, from: jb.from, to: pj})
					}
					if pj+1 < jb.to {
						jobs = append(jobs, job{b: jb.b, from: pj + 1, to: jb.to})
					}
					mu.Unlock()
					break
				}
			}
		}(id)
	}
	wg.Wait()
	for b := range fr.blocks {
		if src, ok := samples[b]; ok {
			c.Sample(map[string]any{"family": fam, "block": fr.blocks[b].Key, "first_program": src})
		}
	}
	fr.complete = !stopped
	if stopped {
		c.Incomplete(fmt.Sprintf("family %s: deadline reached after %d of %d jobs (%d programs executed)", fam, next, len(jobs), fr.programs))
	}
	// Programs on which a worker died are re-executed alone, in a fresh process, under the 60 s
	// watchdog: only what fails again is believed.
	sort.Slice(fatals, func(i, k int) bool {
		if fatals[i].b != fatals[k].b {
			return fatals[i].b < fatals[k].b
		}
		return fatals[i].j < fatals[k].j
	})
	h.confirmFatals(c, fr, fatals, sel, nw)
	fr.wall = time.Since(t0).Seconds()
	return fr
}

type singleResult struct {
	Outcome struct {
		Class string `json:"class"`
		Site  string `json:"site"`
		Kind  string `json:"kind"`
		Msg   string `json:"msg"`
		Stack string `json:"stack"`
		First string `json:"first_err"`
		NErr  int    `json:"nerr"`
		Bad   string `json:"bad"`
		HasZZ bool   `json:"has_zz"`
	} `json:"outcome"`
	Viols      []viol `json:"viols"`
	Source     string `json:"source"`
	FullSource string `json:"full_source"`
	// process-level failure
	CrashKind string `json:"crash_kind,omitempty"`
	CrashSite string `json:"crash_site,omitempty"`
	Stderr    string `json:"stderr,omitempty"`
}

// single runs one program in a fresh worker process under the given watchdog.
func (h *harness) single(prog json.RawMessage, watchdog time.Duration) (*singleResult, error) {
	cmd := h.cmd("-mode", "single", "-watchdog", watchdog.String())
	cmd.Stdin = bytes.NewReader(prog)
	var stdout, stderr bytes.Buffer
	cmd.Stdout, cmd.Stderr = &stdout, &stderr
	err := cmd.Run()
	res := &singleResult{}
	if err != nil {
		kind, site := classifyCrash(stderr.String())
		if kind == "HARNESS" {
			return nil, fmt.Errorf("worker: %s", tail(stderr.String(), 500))
		}
		res.CrashKind, res.CrashSite, res.Stderr = kind, site, tail(stderr.String(), 3000)
		return res, nil
	}
	if err := json.Unmarshal(stdout.Bytes(), res); err != nil {
		return nil, fmt.Errorf("worker single output: %v", err)
	}
	return res, nil
}

type progDesc struct {
	Describe   string `json:"describe"`
	Source     string `json:"source"`
	FullSource string `json:"full_source"`
	NCalls     int    `json:"ncalls"`
}

func (h *harness) describe(prog json.RawMessage) (*progDesc, error) {
	cmd := h.cmd("-mode", "describe")
	cmd.Stdin = bytes.NewReader(prog)
	out, err := cmd.Output()
	if err != nil {
		return nil, err
	}
	var d progDesc
	return &d, json.Unmarshal(out, &d)
}

// programParts gives access to the enumerated calls of a program in its JSON form.
type programParts struct {
	Ctx      string            `json:"ctx,omitempty"`
	Hole     []json.RawMessage `json:"hole,omitempty"`
	Top      []json.RawMessage `json:"top,omitempty"`
	Dangling string            `json:"dangling,omitempty"`
}

func (p *programParts) calls() []json.RawMessage {
	if p.Ctx != "" {
		return p.Hole
	}
	return p.Top
}

func (p *programParts) with(calls []json.RawMessage) json.RawMessage {
	q := *p
	if p.Ctx != "" {
		q.Hole = calls
	} else {
		q.Top = calls
	}
	b, _ := json.Marshal(q)
	return b
}

// fatalSignature minimises a process-killing program call by call (each attempt in a fresh
// process) and builds its signature.
func (h *harness) fatalSignature(prog json.RawMessage, kind, site string) (sig, what string, min json.RawMessage, err error) {
	var parts programParts
	if err := json.Unmarshal(prog, &parts); err != nil {
		return "", "", nil, err
	}
	wd := 60 * time.Second
	cur := prog
	if kind != "nontermination" { // minimising a hang costs a minute per attempt: keep it as found
		for changed := true; changed; {
			changed = false
			calls := parts.calls()
			if len(calls) <= 1 {
				break
			}
			for i := range calls {
				rest := append(append([]json.RawMessage{}, calls[:i]...), calls[i+1:]...)
				cand := parts.with(rest)
				r, err := h.single(cand, wd)
				if err != nil {
					return "", "", nil, err
				}
				if r.CrashKind == kind && r.CrashSite == site {
					var np programParts
					_ = json.Unmarshal(cand, &np)
					parts, cur, changed = np, cand, true
					break
				}
			}
		}
	}
	d, err := h.describe(cur)
	if err != nil {
		return "", "", nil, err
	}
	ctx := parts.Ctx
	if ctx == "" {
		ctx = "toplevel"
	}
	_ = d.Describe // the shape of the calls is in `what`; the recursion (site) identifies the defect
	sig = fmt.Sprintf("fatal kind=%s ctx=%s site=%s", kind, ctx, site)
	what = fmt.Sprintf("evaluation killed the process (%s at %s) instead of ending with a design or errors; program: %s", kind, site, d.Source)
	return sig, what, cur, nil
}

// confirmFatals re-executes, alone and in fresh processes (in parallel), the programs on which
// a worker died; what dies again is a violation. The signature needs a call-by-call
// minimisation (one process per attempt): it is computed once per (kind, site, program shape),
// in the deterministic order of the sorted list.
func (h *harness) confirmFatals(c *core.Ctx, fr *famResult, fatals []fatal, sel string, nw int) {
	type confirmed struct {
		prog json.RawMessage
		r    *singleResult
		key  string
	}
	res := make([]*confirmed, len(fatals))
	var wg sync.WaitGroup
	sem := make(chan struct{}, nw+1)
	for i, f := range fatals {
		wg.Add(1)
		sem <- struct{}{}
		go func(i int, f fatal) {
			defer wg.Done()
			defer func() { <-sem }()
			args := []string{"-mode", "at", "-family", f.fam, "-b", strconv.Itoa(f.b), "-j", strconv.Itoa(f.j)}
			if sel != "" {
				args = append(args, "-sel", sel)
			}
			prog, err := h.cmd(args...).Output()
			if err != nil {
				c.HarnessError("cannot rebuild program %s/%d/%d: %v", f.fam, f.b, f.j, err)
				return
			}
			prog = bytes.TrimSpace(prog)
			r, err := h.single(prog, 60*time.Second)
			if err != nil {
				c.HarnessError("confirming %s/%d/%d: %v", f.fam, f.b, f.j, err)
				return
			}
			cf := &confirmed{prog: prog, r: r}
			if r.CrashKind != "" {
				d, err := h.describe(prog)
				if err != nil {
					c.HarnessError("describing %s/%d/%d: %v", f.fam, f.b, f.j, err)
					return
				}
				cf.key = r.CrashKind + "|" + r.CrashSite + "|" + d.Describe
			}
			res[i] = cf
		}(i, f)
	}
	wg.Wait()
	if h.fatalSigs == nil {
		h.fatalSigs = map[string]string{}
	}
	for i, f := range fatals {
		cf := res[i]
		if cf == nil {
			continue
		}
		c.State(fr.blocks[f.b].Key+"/"+strconv.Itoa(f.j), true)
		fr.programs++
		r := cf.r
		if r.CrashKind == "" {
			// did not fail again in a fresh process: not believed; count its real outcome instead
			fr.fatalsUnconf++
			switch r.Outcome.Class {
			case "accepted":
				fr.acc++
			case "rejected":
				fr.rej++
			default:
				fr.pan++
			}
			fr.outcomes["(re-executed after a worker died: "+f.reason+")"]++
			for _, v := range r.Viols {
				fv, ok := fr.viols[v.Sig]
				if !ok {
					fv = &foundViol{sig: v.Sig, b: f.b, j: f.j, what: v.What, src: v.Src, prog: v.Prog, min: v.Min, fam: f.fam}
					fr.viols[v.Sig] = fv
				}
				fv.count++
			}
			continue
		}
		fr.fatals++
		fr.outcomes["process killed: "+r.CrashKind]++
		c.Outcome("process killed: " + r.CrashKind)
		sig, ok := h.fatalSigs[cf.key]
		if !ok {
			var what string
			var min json.RawMessage
			var err error
			sig, what, min, err = h.fatalSignature(cf.prog, r.CrashKind, r.CrashSite)
			if err != nil {
				c.HarnessError("minimising %s/%d/%d: %v", f.fam, f.b, f.j, err)
				continue
			}
			h.fatalSigs[cf.key] = sig
			if _, seen := fr.viols[sig]; !seen {
				fv := &foundViol{sig: sig, b: f.b, j: f.j, what: what, prog: cf.prog, min: min, fam: f.fam, fatalKind: r.CrashKind}
				if d, err := h.describe(min); err == nil {
					fv.src = d.Source
				}
				fr.viols[sig] = fv
			}
		}
		fv, seen := fr.viols[sig]
		if !seen { // signature first met in an earlier family of this run
			fv = &foundViol{sig: sig, b: f.b, j: f.j, what: fmt.Sprintf("evaluation killed the process (%s at %s)", r.CrashKind, r.CrashSite), prog: cf.prog, min: cf.prog, fam: f.fam, fatalKind: r.CrashKind}
			if d, err := h.describe(cf.prog); err == nil {
				fv.src = d.Source
			}
			fr.viols[sig] = fv
		}
		fv.count++
	}
}

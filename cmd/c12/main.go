// C12 — any DSL program yields a design or located errors, never a crash.
//
// Alphabet: every exported function of goa's dsl package (table generated at check time from
// /repo/dsl/*.go, so new functions are picked up), called with every argument vector of
// per-type menus built by reflection on the function's signature (string: existing name "a",
// new name "x", "", "/{a}", "/{x}"; int: 200, 1, 0, -1; func(): body defining attribute a,
// body setting a description, empty body, nil; any / interface: String, "a", 1, func, user
// type, nil, result type, ArrayOf(String), "x", 1.5, []string, the value a failed ResultType() call
// returns (today a nil *ResultTypeExpr); variadic tails of 0, 1 and 2 values), placed in the
// hole of every context scaffold (47: top level, API, Server, Host, Service, Method, Payload,
// Result, Type, attributes of several types, ResultType, View, HTTP and gRPC at API / service /
// method level, responses, error responses, security schemes, ...).
//
// Bound: depth 1 = context x function x complete product of the menus. Depth 2 = every ordered
// pair of calls in every context with the menu chosen from the depth-1 results (quick: one
// accepted and one argument-rejected vector per function; thorough: one vector per distinct
// depth-1 outcome class). Thorough adds depth 3: triples of the calls goa accepts in each context
// (plus their ill-typed variants in the 8 most relevant contexts). Two special families: dangling references (a reference to the
// never-defined name "zzq" in every position where a design can refer to an attribute, error,
// scheme or view; alone, and combined with one (quick) or two (thorough) other calls; and, family
// dkind, the same references with the type they go into - payload, result, error type, the type a
// Required / view list belongs to, the result type a view is selected from - ranging over a menu
// of kinds: inline object, user type, result type with views, type / result type / inline object
// extending another type, object with a Reference, user type + overriding DSL, alias of a user
// type, and the kinds without attributes: primitive, alias of a primitive, array, map, collection;
// every template also runs with the dangling name replaced by each existing name as a control) and
// recursive types (self-referential, thorough: mutually recursive, user and result types,
// through attributes, arrays, maps, Extend, Reference, OneOf, views, CollectionOf).
//
// Oracle (from the property statement only): each program, run on fresh global state exactly
// like cmd/goa's generated main (top-level calls, then eval.RunDSL) under recover and a
// watchdog, ends either accepted or with a non-empty error list whose every entry has a
// non-empty message that names an expression or carries the source location of the offending
// call; it never panics, never kills the process (stack overflow), never hangs (20 s in the
// worker, then 60 s alone in a fresh process before it is believed). An accepted design of the
// dangling family is a violation when the program cannot have replaced the referring construct
// (always when the template is alone; with companions for list-appending constructs such as
// Security, Required, Header, Param, view attributes); otherwise when the accepted design still
// mentions "zzq" anywhere (reflection walk over expr.Root). Where the type referred into has no
// attributes (primitive, array, map, ...) a name maps the whole value and is no reference: only
// the crash / located-error clauses apply there. Family cred: a security requirement refers through
// its scheme to the payload attribute carrying the scheme's credential (Username + Password,
// APIKey(<scheme>), Token, AccessToken); when the program puts no such attribute in the payload
// (reference model: plain set inclusion over the enumerated credential subset) the design must
// not be accepted.
package main

import (
	"encoding/json"
	"fmt"
	"os"
	"path/filepath"
	"sort"
	"strings"
	"sync"
	"time"

	"verif/core"
)

type selection struct {
	D2 map[string]map[string][]int `json:"d2"`
	D3 map[string]map[string][]int `json:"d3"`
	T3 map[string]map[string][]int `json:"t3"`
}

// buildSelection derives the argument vectors used by the deeper families from the depth-1
// results: per (context, function) the first accepted vector ("valid"), the first vector that
// goa rejects for a reason other than the context ("ill-typed"), and one representative per
// distinct outcome class. This only steers the enumeration; it is not part of the oracle.
func buildSelection(h *harness, d1 *famResult, thorough bool) *selection {
	sel := &selection{D2: map[string]map[string][]int{}, D3: map[string]map[string][]int{}, T3: map[string]map[string][]int{}}
	relevant := map[string]bool{}
	for _, ctx := range h.info.RelevantContexts {
		relevant[ctx] = true
	}
	type cf struct{ ctx, fn string }
	valid := map[cf]int{}
	ill := map[cf]int{}
	reps := map[cf][]int{}
	gvalid := map[string]int{}
	gill := map[string]int{}
	for b, bl := range d1.blocks {
		parts := strings.SplitN(bl.Key, "/", 3) // d1/<ctx>/<fn>
		k := cf{parts[1], parts[2]}
		if d1.firstAcc[b] >= 0 {
			valid[k] = d1.firstAcc[b]
		}
		best := -1
		var all []int
		classes := make([]string, 0, len(d1.reps[b]))
		for cls := range d1.reps[b] {
			classes = append(classes, cls)
		}
		sort.Strings(classes)
		for _, cls := range classes {
			j := d1.reps[b][cls]
			all = append(all, j)
			if strings.HasPrefix(cls, "rej:") && !strings.Contains(cls, "invalid use of") && (best < 0 || j < best) {
				best = j
			}
		}
		sort.Ints(all)
		reps[k] = all
		if best >= 0 && d1.firstAcc[b] >= 0 {
			ill[k] = best
		}
	}
	for _, f := range h.info.Functions {
		gvalid[f.Name], gill[f.Name] = 0, -1
		for i := len(h.info.Contexts) - 1; i >= 0; i-- {
			k := cf{h.info.Contexts[i], f.Name}
			if v, ok := valid[k]; ok {
				gvalid[f.Name] = v
			}
			if v, ok := ill[k]; ok {
				gill[f.Name] = v
			}
		}
	}
	add := func(l []int, v int) []int {
		if v < 0 {
			return l
		}
		for _, x := range l {
			if x == v {
				return l
			}
		}
		return append(l, v)
	}
	for _, ctx := range h.info.Contexts {
		sel.D2[ctx] = map[string][]int{}
		sel.D3[ctx] = map[string][]int{}
		sel.T3[ctx] = map[string][]int{}
		for _, f := range h.info.Functions {
			k := cf{ctx, f.Name}
			var l []int
			if v, ok := valid[k]; ok {
				// goa accepts the function here: canonical valid call + one ill-typed call
				l = add(l, v)
				if iv, ok := ill[k]; ok {
					l = add(l, iv)
				} else {
					l = add(l, gill[f.Name])
				}
				sel.D3[ctx][f.Name] = []int{v}
				sel.T3[ctx][f.Name] = []int{v}
				if relevant[ctx] && len(l) > 1 {
					sel.T3[ctx][f.Name] = append([]int{}, l...)
				}
			} else {
				// misplaced here: its canonical call only
				l = add(l, gvalid[f.Name])
			}
			if thorough {
				for i, r := range reps[k] {
					if i >= 8 {
						break
					}
					l = add(l, r)
				}
			}
			sel.D2[ctx][f.Name] = l
		}
	}
	return sel
}

func run(c *core.Ctx) {
	c.Rule("one state = one DSL program (context scaffold + enumerated calls, canonical key family/context/function/vector index); " +
		"one transition = one execution of the program through the real dsl functions and eval.RunDSL on fresh global state; " +
		"enumeration: depth 1 complete product of the per-type argument menus for every function in every context, depth 2 every ordered pair per context over the selected vectors, " +
		"depth 3 / dangling / recursive families as stated in bounds; non-trivial = the program got past goa's context check (anything but a rejection made only of 'invalid use of' errors)")
	c.Assume("a program is run like cmd/goa's generated main does: top-level calls first; if they reported errors evaluation stops with them, else eval.RunDSL")
	c.Assume("fresh state per program inside a worker process = eval.Reset + new expr.Root / expr.GeneratedResultTypes registered (goa's own test recipe, without a pre-made API) + expr.validated emptied + pristine deep copies of the mutable built-ins expr.ErrorResult and expr.Empty; dsl.resultTypeCount (only numbers anonymous result types) is not reset; every violation is re-executed in fresh processes before it is reported")
	c.Assume("an error entry 'locates an expression' when it names an expression (eval.ReportError's ' in <EvalName>' / '(top level)' suffix, or a ValidationErrors entry with a non-empty EvalName) or carries the file:line of the offending call")
	c.Assume("the argument menu contains the value dsl.ResultType really returns after reporting an error (obtained by calling it with too many arguments at the point of use): a design that keeps using `var RT = ResultType(...)` of a broken definition")
	c.Assume("dangling-reference clause: the family's programs refer to the name zzq, which no menu contains, so they never define it; acceptance is a violation by itself when no call of the program can replace the referring construct (template alone, or list-appending constructs); otherwise an accepted design 'still refers' to it when a string reachable from expr.Root / expr.GeneratedResultTypes through goa's own struct types contains it (third-party data such as the example generator's word lists is skipped)")
	c.Assume("View(name) on an attribute / result selects the single view it is rendered with: a later View(other) in the same DSL replaces the selection, so of the values goa keeps under the meta key \"view\" only the last one is a reference")
	c.Assume("requirement / credential clause: a requirement is unmet when a scheme it names needs a credential attribute (basic: Username and Password; apikey: APIKey for that scheme name; jwt: Token; oauth2: AccessToken) that the program did not put in the payload (directly or through Extend); with two Security calls every one of them must be met; nothing is asserted about credentials no requirement uses")
	c.Assume("a DSL call without variadic arguments passes a nil slice, as compiled Go code does (reflect.Value.CallSlice with a nil slice), so that `if args == nil` branches of the DSL behave as in a real design")
	c.Assume("kind dimension: where the type a mapping refers into has no attributes (primitive, alias of a primitive, array, map, collection) a name maps the whole value and is not an attribute reference: those variants are judged by the crash / located-error clauses only; the control programs (dangling name replaced by an existing one) likewise")
	c.Assume("the worker reaches goa's unexported expr.validated through go:linkname (no overlay); a rename in goa makes the worker fail to link, which is reported as a harness error")
	c.Assume("depth-2/3 argument vectors are selected from the depth-1 outcomes of the same run (steers enumeration only)")

	menus := "quick"
	if c.Thorough() {
		menus = "full"
	}
	h := prepare(c, menus)
	if h == nil {
		return
	}
	defer h.cleanup()
	var fnNames []string
	vectors := 0
	for _, f := range h.info.Functions {
		fnNames = append(fnNames, f.Name)
		vectors += f.Vectors
	}
	c.Note("function_table_size", len(h.info.Functions))
	c.Note("function_table", fnNames)
	c.Note("contexts", h.info.Contexts)
	c.Note("relevant_contexts_depth3", h.info.RelevantContexts)
	c.Note("menu_sizes", h.info.Menus)
	c.Note("argument_vectors_per_context", vectors)
	c.Note("dangling_templates", h.info.DanglingTemplates)
	c.Note("referred_type_kinds", h.info.RefKinds)
	c.Note("requirement_credential_family", h.info.Cred)

	var results []*famResult
	runFam := func(name, sel string) *famResult {
		if c.Expired() {
			c.Incomplete("family " + name + " not started: deadline reached")
			return nil
		}
		fr := h.runFamily(c, name, sel)
		results = append(results, fr)
		c.Exec(fr.programs + fr.extra)
		return fr
	}
	d1 := runFam("d1", "")
	if d1 == nil || !d1.complete {
		report(c, h, results)
		return
	}
	sel := buildSelection(h, d1, c.Thorough())
	selPath := filepath.Join(h.workDir, "selection.json")
	b, _ := json.Marshal(sel)
	if err := os.WriteFile(selPath, b, 0o644); err != nil {
		c.HarnessError("cannot write selection: %v", err)
		return
	}
	fams := []string{"dangling1", "dkind1", "cred", "rec1", "recref1", "dangling2", "dkind2", "d2"}
	bounds := "depth 1: complete product (quick menus: two-value variadic tails over the 6 most common values); depth 2: all ordered pairs per context over {first accepted, first ill-typed} vectors; dangling references (every position of name lists) alone and with one accepted companion call before/after, each followed at level 1 by its control programs (the dangling name replaced by every existing name); kind of the type referred into (dkind): every template in the variants of its scaffold, level 1 = the referred type over its whole kind menu x the other types of the scaffold over {base, user type, result type}, level 2 (one companion) = one type at a time over its whole kind menu; requirement / credential family (cred): transport {HTTP, gRPC, none} x level {method, service, API} x requirement shape over the schemes {basic, apikey k1, apikey k2, jwt, oauth2} (one scheme, every ordered pair in one Security call, every ordered pair as two Security calls: 45) x payload kind {inline object, user type, result type, type with inherited credentials; no payload, primitive payload} x every subset of the 6 credential attributes (64); self-recursive types with bodies of 1..2 calls, and extended / referenced from a second type, payload or result with and without same-named attributes"
	if c.Thorough() {
		fams = []string{"dangling1", "dkind1", "cred", "rec1", "recref1", "dangling2", "dkind2", "rec2", "recref2", "d2", "d3", "dangling3", "dkind3"}
		bounds = "depth 1: complete product of the full menus; depth 2: all ordered pairs per context over one vector per distinct depth-1 outcome class (max 8) plus {first accepted, first ill-typed}; depth 3: all ordered triples of the calls goa accepts in every context (in the 8 relevant contexts also of their ill-typed variants); dangling references alone (with controls), with one and with two accepted companion calls in every position; kind of the type referred into (dkind): level 1 = full product of the kind menus of payload, result and error type, level 2 = the referred type over its whole menu x the others over {base, user type, result type}, level 3 = one type at a time over its object-like kinds; requirement / credential family (cred): as quick plus the payload kinds {inline object / result type extending a type that holds the credentials, object with a Reference, user type + overriding DSL, alias of a user type}; self-recursive and mutually recursive type pairs, also extended / referenced from a second type, payload or result"
	}
	c.Note("bounds", bounds)
	for _, f := range fams {
		runFam(f, selPath)
	}
	report(c, h, results)
}

func report(c *core.Ctx, h *harness, results []*famResult) {
	perFam := map[string]any{}
	outcomes := map[string]int64{}
	var all []*foundViol
	merged := map[string]*foundViol{}
	for _, fr := range results {
		perFam[fr.name] = map[string]any{
			"blocks": len(fr.blocks), "programs": fr.programs, "accepted": fr.acc, "rejected": fr.rej, "panicked": fr.pan,
			"process_killed": fr.fatals, "worker_deaths_not_reproduced": fr.fatalsUnconf,
			"extra_executions_for_minimisation": fr.extra, "slowest_program_ms": fr.slowest, "wall_s": fr.wall, "complete": fr.complete,
			"violation_signatures": len(fr.viols),
		}
		if fr.name == "dangling1" || fr.name == "dkind1" {
			// program 0 of every block is the dangling reference, the others are its controls
			// (existing names): a block whose first accepted program is not a control shows that
			// the rejection of the dangling program proves little there (vacuity indicator only)
			with, first, none, without := 0, 0, 0, []string{}
			for b, fa := range fr.firstAcc {
				switch {
				case fa > 0:
					with++
				case fa == 0:
					first++ // program 0 itself accepted: a violation (reported), or a type without attributes
				default:
					none++
					if len(without) < 40 {
						without = append(without, fr.blocks[b].Key)
					}
				}
			}
			m := perFam[fr.name].(map[string]any)
			m["blocks_whose_control_is_accepted"] = with
			m["blocks_whose_program_0_is_accepted"] = first
			m["blocks_with_nothing_accepted"] = none
			m["blocks_with_nothing_accepted_first_40"] = without
		}
		for k, v := range fr.outcomes {
			outcomes[k] += v
		}
		sigs := make([]string, 0, len(fr.viols))
		for s := range fr.viols {
			sigs = append(sigs, s)
		}
		sort.Strings(sigs)
		for _, s := range sigs {
			fv := fr.viols[s]
			if m, ok := merged[s]; ok {
				m.count += fv.count
				continue
			}
			cp := *fv
			merged[s] = &cp
			all = append(all, &cp)
		}
		fmt.Printf("C12 family %-10s programs=%d accepted=%d rejected=%d panicked=%d killed=%d signatures=%d wall=%.1fs\n",
			fr.name, fr.programs, fr.acc, fr.rej, fr.pan, fr.fatals, len(fr.viols), fr.wall)
	}
	c.Note("families", perFam)
	c.Note("program_outcome_counts", outcomes)

	// Re-execute each distinct signature five times in fresh processes (core does the counting),
	// 16 signatures at a time.
	var wg sync.WaitGroup
	sem := make(chan struct{}, 16)
	for _, fv := range all {
		if fv.sig == "HARNESS" {
			c.HarnessError("worker: %s (%s)", fv.what, fv.src)
			continue
		}
		wg.Add(1)
		sem <- struct{}{}
		go func(fv *foundViol) {
			defer wg.Done()
			defer func() { <-sem }()
			h.reportViolation(c, fv)
		}(fv)
	}
	wg.Wait()
	if path := os.Getenv("C12_FINDINGS_OUT"); path != "" {
		writeFindings(path, all)
	}
}

type replayCase struct {
	Program  json.RawMessage `json:"program"`  // 1-minimal failing program (what the signature describes)
	Original json.RawMessage `json:"original"` // the program as enumerated
	Family   string          `json:"family"`
	Source   string          `json:"source"`
	Fatal    string          `json:"fatal,omitempty"`
}

func (h *harness) reportViolation(c *core.Ctx, fv *foundViol) {
	rc := replayCase{Program: fv.min, Original: fv.prog, Family: fv.fam, Source: fv.src, Fatal: fv.fatalKind}
	recheck := func() bool { return h.fails(fv.min, fv.sig) }
	c.Violation(fv.sig, fv.what, rc, recheck)
	for i := int64(1); i < fv.count; i++ {
		c.Violation(fv.sig, fv.what, rc, nil)
	}
}

// fails re-executes a program in a fresh process and reports whether it fails with signature sig.
func (h *harness) fails(prog json.RawMessage, sig string) bool {
	r, err := h.single(prog, 60*time.Second)
	if err != nil {
		return false
	}
	if r.CrashKind != "" {
		s, _, _, err := h.fatalSignature(prog, r.CrashKind, r.CrashSite)
		return err == nil && s == sig
	}
	for _, v := range r.Viols {
		if v.Sig == sig {
			return true
		}
	}
	return false
}

func writeFindings(path string, all []*foundViol) {
	type finding struct {
		Signature string          `json:"signature"`
		Cases     int64           `json:"cases"`
		Family    string          `json:"first_seen_in_family"`
		What      string          `json:"what"`
		Example   string          `json:"example_source"`
		Program   json.RawMessage `json:"example_program"`
	}
	var out []finding
	for _, fv := range all {
		out = append(out, finding{fv.sig, fv.count, fv.fam, fv.what, fv.src, fv.min})
	}
	sort.Slice(out, func(i, k int) bool { return out[i].Signature < out[k].Signature })
	b, _ := json.MarshalIndent(map[string]any{"property": "C12", "signatures": out}, "", " ")
	_ = os.WriteFile(path, append(b, '\n'), 0o644)
}

func replay(c *core.Ctx, path string) {
	var rc replayCase
	if err := core.ReplayCase(path, &rc); err != nil || len(rc.Program) == 0 {
		c.HarnessError("replay %s: no program in case: %v", path, err)
		return
	}
	h := prepare(c, "full")
	if h == nil {
		return
	}
	defer h.cleanup()
	r, err := h.single(rc.Program, 60*time.Second)
	if err != nil {
		c.HarnessError("replay: %v", err)
		return
	}
	c.Exec(1)
	d, _ := h.describe(rc.Program)
	if d != nil {
		fmt.Printf("replay program: %s\nfull source:   %s\n", d.Source, d.FullSource)
	}
	if r.CrashKind != "" {
		sig, what, _, err := h.fatalSignature(rc.Program, r.CrashKind, r.CrashSite)
		if err != nil {
			c.HarnessError("replay: %v", err)
			return
		}
		fmt.Printf("replay outcome: process killed (%s at %s)\n%s\n", r.CrashKind, r.CrashSite, r.Stderr)
		c.Violation(sig, what, rc, nil)
		return
	}
	fmt.Printf("replay outcome: %s errors=%d first=%q panic=%q site=%s\n", r.Outcome.Class, r.Outcome.NErr, r.Outcome.First, r.Outcome.Msg, r.Outcome.Site)
	if r.Outcome.Stack != "" {
		fmt.Printf("goa frames of the panic:\n%s", r.Outcome.Stack)
	}
	for _, v := range r.Viols {
		fmt.Printf("  %s\n  %s\n", v.Sig, v.What)
		c.Violation(v.Sig, v.What, rc, nil)
	}
}

func main() { core.Main("C12", run, replay) }

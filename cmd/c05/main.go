// C05 — declared errors reach the client as the same error; others become faults.
package main

import (
	"verif/core"
	"verif/e2/check"
	"verif/e2/families"
)

func run(c *core.Ctx) {
	c.Rule("designs: error level {method, service, API, none} x error type {default ErrorResult, object type with error-name attribute shared by two errors, object with header-mapped attribute, primitive} x status assignment {distinct, two errors on one status} x DSL flags; " +
		"per method the stub returns every declared error (Make constructor, all 8 flag combinations, wrapped with %w, custom field-value menu) and the undeclared menu (service errors with all 8 flag combinations x {ordinary, unsupported_media_type} names, goa constructors, plain and wrapped errors); " +
		"one case = (method, returned error); every case is one end-to-end execution; non-trivial = all")
	c.Assume("undeclared-error table taken from the statement and the StatusCode doc comment: plain error -> 500 + fault; service error -> 415 by name, else fault 500, timeout+temporary 504, timeout 408, temporary 503, else 400")
	c.Assume("a declared error wrapped with fmt.Errorf(%w) counts as that declared error (errors.As semantics)")
	corpus, err := check.BuildFamily(c, families.Errors())
	if err != nil {
		c.HarnessError("%v", err)
		return
	}
	if err := check.RunMode(c, corpus, "C05"); err != nil {
		c.HarnessError("%v", err)
	}
}

func main() { core.Main("C05", run, nil) }

// C07 — OpenAPI documents are valid and list exactly the server's operations.
package main

import (
	"fmt"
	"os"
	"strings"

	"verif/core"
	"verif/e2/check"
	"verif/e2/drv"
	"verif/e2/families"
)

func run(c *core.Ctx) {
	c.Rule("designs: every linked design of every E2 family (type x location x requiredness singles and pairs on both sides, status/tags, validation keywords x positions, errors at method/service/API level, " +
		"security requirement structures at method/service/API level with overrides, views) plus the route-feature family (all nine verbs, several routes per endpoint, API/service base paths incl. a parameter in the service path, " +
		"trailing slashes, root, absolute routes, {*wildcard}, file servers, services sharing suffixes); " +
		"per design: validity of openapi3.json (kin-openapi load+Validate, plus the 3.0.3 MUSTs on security requirement names/scopes, template variables, operationIds) and of openapi.json " +
		"(openapi2 decode, conversion to OpenAPI 3 + Validate, structural checker from the Swagger 2.0 text), JSON = YAML after decoding, and mount-set equality: the (verb, pattern) multiset registered by every generated Mount " +
		"on a recording muxer = the operations of each document, both directions; per (method route, document): documented (name,in,required) parameters = designed places, body documented iff designed, " +
		"documented status codes = designed success + declared-error statuses, documented security requirements = effective requirements; " +
		"one case = one design-level verdict or one (route, document) comparison; non-trivial = design-level verdicts and operations with at least one parameter, body, requirement or second status")
	c.Assume("the designed layout (drv.RequestLayout) stands for the server's behaviour: C02/C04 establish that the generated server reads and requires exactly the designed places")
	c.Assume("examples are not validated (the OpenAPI specifications say an example SHOULD match its schema); an empty info.title is accepted (both specifications' schemas only require a string)")
	c.Assume("Swagger 2.0 cannot express cookie parameters, TRACE operations or bearer schemes: cookie places are not demanded from openapi.json, a JWT scheme is expected as apiKey at the token's designed place; neither version can express CONNECT")
	c.Assume("credential attributes may be documented as parameters or only through the security scheme; OpenAPI 3 header parameters named Accept/Content-Type/Authorization are not demanded (the specification says they are ignored)")
	c.Assume("scopes are not compared (the statement names schemes only)")
	only := os.Getenv("VERIF_FAMILY")
	for _, f := range c07Families(c.Thorough()) {
		if only != "" && !strings.HasPrefix(f.Name, only) {
			c.Incomplete("restricted to family " + only + " by VERIF_FAMILY (development aid)")
			continue
		}
		if c.Expired() {
			c.Incomplete("deadline reached before family " + f.Name)
			return
		}
		corpus, err := check.BuildFamily(c, f)
		if err != nil {
			c.HarnessError("%s: %v", f.Name, err)
			continue
		}
		if f.CompileOnly {
			// no driver: the document-only parts run here, on every design goa generated
			for _, d := range corpus.Designs {
				if !d.Gen.OK || d.Spec == nil {
					continue
				}
				for _, r := range drv.C07Static(corpus.Dir, d.Name, d.Spec) {
					fold(c, corpus.Family, r)
				}
			}
			continue
		}
		if err := check.RunMode(c, corpus, "C07"); err != nil {
			c.HarnessError("%s: %v", f.Name, err)
		}
	}
	if only != "" && !strings.HasPrefix("oa-routes", only) {
		return
	}
	corpus, err := families.BuildRoutes(c)
	if err != nil {
		c.HarnessError("oa-routes: %v", err)
		return
	}
	if err := check.RunMode(c, corpus, "C07"); err != nil {
		c.HarnessError("oa-routes: %v", err)
	}
}

// c07Families: every shared family plus the required+default parameter family.
func c07Families(thorough bool) []check.Family {
	return append(families.All(thorough), families.RequiredDefault())
}

// fold adds one in-process result to the evidence exactly as check.RunMode does for driver output.
func fold(c *core.Ctx, family string, r *drv.MethodResult) {
	for _, e := range r.HarnessErr {
		c.HarnessError("C07 %s/%s/%s: %s", r.Design, r.Service, r.Method, e)
	}
	if r.Skipped != "" {
		c.AddNote("methods_skipped", 1)
		return
	}
	c.AddNote("methods_executed", 1)
	c.Exec(r.Execs)
	for i := int64(0); i < r.Cases; i++ {
		c.State(fmt.Sprintf("%s/%s/%s/%s/%d", family, r.Design, r.Service, r.Method, i), i < r.Nontrivial)
	}
	for k := range r.Outcomes {
		c.Outcome(k)
	}
	for k, n := range r.Notes {
		c.AddNote(k, n)
	}
	for _, s := range r.Samples {
		c.Sample(map[string]any{"design": r.Design, "method": r.Method, "feat": r.Feat, "case": s})
	}
	for _, v := range r.Viols {
		cs := map[string]any{"corpus": family, "design": r.Design, "service": r.Service, "method": r.Method, "feat": r.Feat, "mode": "C07-static", "case": v.Case, "count": v.Count}
		c.Violation(v.Sig, v.What, cs, nil)
	}
}

// replay re-executes the design (and method) named in a replay file: the family's corpus is
// built or reused and the driver is run restricted to that design and method.
func replay(c *core.Ctx, path string) {
	var cs struct {
		Corpus, Design, Method, Mode string
	}
	if err := core.ReplayCase(path, &cs); err != nil {
		c.HarnessError("replay: %v", err)
		return
	}
	if cs.Corpus == "oa-routes" {
		corpus, err := families.BuildRoutes(c)
		if err != nil {
			c.HarnessError("oa-routes: %v", err)
			return
		}
		if err := check.RunMode(c, corpus, "C07", "-design", cs.Design, "-method", cs.Method); err != nil {
			c.HarnessError("oa-routes: %v", err)
		}
		return
	}
	for _, thorough := range []bool{false, true} {
		for _, f := range c07Families(thorough) {
			if f.Name != cs.Corpus {
				continue
			}
			corpus, err := check.BuildFamily(c, f)
			if err != nil {
				c.HarnessError("%s: %v", f.Name, err)
				return
			}
			if f.CompileOnly {
				for _, d := range corpus.Designs {
					if d.Name == cs.Design && d.Gen.OK && d.Spec != nil {
						for _, r := range drv.C07Static(corpus.Dir, d.Name, d.Spec) {
							fold(c, corpus.Family, r)
						}
					}
				}
				return
			}
			if err := check.RunMode(c, corpus, "C07", "-design", cs.Design, "-method", cs.Method); err != nil {
				c.HarnessError("%s: %v", f.Name, err)
			}
			return
		}
	}
	c.HarnessError("replay: unknown corpus %q", cs.Corpus)
}

func main() { core.Main("C07", run, replay) }

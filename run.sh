#!/bin/sh
# usage: ./run.sh <Cxx> <quick|thorough> [--replay file] ...
# Rebuilds the check binary from /verif sources against /repo's current working tree
# (go.mod replaces goa.design/goa/v3 with /repo) and runs it. Exit 0/1/2 as documented.
cd "$(dirname "$0")" || exit 2
export GOFLAGS=-mod=mod GOPROXY=off GOSUMDB=off GOTOOLCHAIN=local
id="$1"; tier="$2"; shift 2
# The checks compile thousands of generated packages: they use their own Go build cache and
# keep it bounded (entries not used recently are dropped once the cache exceeds ~15 GB; the
# go command treats a missing entry as a cache miss).
export GOCACHE="${VERIF_GOCACHE:-$PWD/.work/gocache}"
mkdir -p "$GOCACHE"
# Trimming must not race with a build of another run.sh: every invocation holds a shared lock
# on the cache for its whole life (the check binary inherits the descriptor); trimming happens
# only when an exclusive lock can be had at once, i.e. when nobody else is using the cache.
exec 9>"$GOCACHE.lock"
if command -v flock >/dev/null 2>&1 && flock -n -x 9; then
  sz=$(du -sm "$GOCACHE" 2>/dev/null | cut -f1)
  if [ "${sz:-0}" -gt 15000 ]; then
    find "$GOCACHE" -type f -mmin +90 -delete 2>/dev/null
    sz=$(du -sm "$GOCACHE" 2>/dev/null | cut -f1)
    if [ "${sz:-0}" -gt 30000 ]; then find "$GOCACHE" -type f -mmin +20 -delete 2>/dev/null; fi
  fi
fi
command -v flock >/dev/null 2>&1 && flock -s 9
lc=$(echo "$id" | tr 'A-Z' 'a-z')
mkdir -p bin evidence replays
# VERIF_REPO=<dir> runs the check against another copy of goadesign/goa (a scratch worktree
# with a candidate change applied) instead of /repo: an alternate go.mod replaces the module.
MODFLAG=""
BIN="bin/$lc"
if [ -n "$VERIF_REPO" ] && [ "$VERIF_REPO" != "/repo" ]; then
  tag=$(echo "$VERIF_REPO" | cksum | cut -d' ' -f1)
  mkdir -p ".work/alt-$tag"
  sed "s#=> /repo#=> $VERIF_REPO#" go.mod > ".work/alt-$tag/go.mod"
  cp go.sum ".work/alt-$tag/go.sum"
  MODFLAG="-modfile=$PWD/.work/alt-$tag/go.mod"
  export VERIF_MODFILE="$PWD/.work/alt-$tag/go.mod"
  BIN="bin/$lc.alt-$tag"
fi
if ! go build $MODFLAG -tags verif -o "$BIN" "./cmd/$lc" >"bin/$lc.build.log" 2>&1 &&
   ! { sleep 1; go build $MODFLAG -tags verif -o "$BIN" "./cmd/$lc" >"bin/$lc.build.log" 2>&1; }; then
  cat "bin/$lc.build.log"
  echo "HARNESS-ERROR $id: check binary does not build against /repo"
  exit 2
fi
exec "./$BIN" --tier "$tier" "$@"

#!/bin/sh
# usage: ./run.sh <Cxx> <quick|thorough> [--replay file] ...
# Rebuilds the check binary from /verif sources against /repo's current working tree
# (go.mod replaces goa.design/goa/v3 with /repo) and runs it. Exit 0/1/2 as documented.
cd "$(dirname "$0")" || exit 2
export GOFLAGS=-mod=mod GOPROXY=off GOSUMDB=off GOTOOLCHAIN=local
id="$1"; tier="$2"; shift 2
lc=$(echo "$id" | tr 'A-Z' 'a-z')
mkdir -p bin evidence replays
if ! go build -tags verif -o "bin/$lc" "./cmd/$lc" >"bin/$lc.build.log" 2>&1; then
  cat "bin/$lc.build.log"
  echo "HARNESS-ERROR $id: check binary does not build against /repo"
  exit 2
fi
exec "./bin/$lc" --tier "$tier" "$@"
